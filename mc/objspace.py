"""E2: objdump-text explorer.

(b) real objdump output of enumerated code-byte windows: `prefix-bytes || tail || NOP sled`,
    assembled into an ELF object with as/.incbin and disassembled with the real objdump;
(a) a line grammar producing objdump-style lines (instruction lines with every operand form,
    labels, headers, blank lines, elisions, continuation lines).

analyse_text() runs the real parser / consumer on a text and compares with the reference
classifier P (mc.refmodel) clause by clause; C08, C09, C10 each report their own clauses.
"""
from __future__ import annotations

import os
import subprocess

from mc import refmodel as rm
from mc.common import HarnessError, REPO

NOP_SLED = b"\x90" * 15

TAILS = [
    bytes.fromhex("0000000000000000"),          # modrm 00 -> (%rax) forms, add %al,(%rax) filler
    bytes.fromhex("8424100000001122"),          # mod=10 rm=100 + SIB 24 + disp32
    bytes.fromhex("45f8c3c3c3c3c3c3"),          # mod=01 rbp disp8=-8
    bytes.fromhex("0510000000c3c3c3"),          # rip-relative / disp32
    bytes.fromhex("c0c3c3c3c3c3c3c3"),          # register-direct
    bytes.fromhex("4c9d10c3c3c3c3c3"),          # mod=01 SIB 9d (rbp+rbx*4) disp8
    bytes.fromhex("04cdf8ffffffc3c3"),          # mod=00 SIB no base: disp32(,%rcx,8)
    bytes.fromhex("ffffffffffffffff"),
    bytes.fromhex("e8fbffffffc3c3c3"),          # contains a call rel32
    bytes.fromhex("ebfe7402c3c3c3c3"),          # short jumps
    bytes.fromhex("66900f1f440000c3"),          # multi-byte nops
    bytes.fromhex("4889e5c9c3c3c3c3"),
    bytes.fromhex("3e2e7002c3c3c3c3"),          # branch hints
    bytes.fromhex("6748890424c3c3c3"),          # address-size prefix
    bytes.fromhex("f348a5f2aec3c3c3"),          # rep/repnz string ops
    bytes.fromhex("c5f877c4e27918c0"),          # VEX
]


def build_object(h, name: str, code: bytes, elfclass: int = 64, section: str = ".text", extra: str = "") -> str:
    """Flat code bytes -> relocatable ELF object via the real assembler."""
    binp = h.write(name + ".bin", code)
    src = h.write(name + ".s", f'.section {section},"ax"\n.incbin "{binp}"\n{extra}')
    obj = h.path(name + ".o")
    r = subprocess.run(["as", f"--{elfclass}", src, "-o", obj], capture_output=True, text=True)
    if r.returncode != 0:
        raise HarnessError(f"as failed: {r.stderr}")
    return obj


def objdump_text(obj: str, sections=None, extra=()) -> str:
    cmd = ["objdump", "-d", "-M", "att", *extra]
    for s in sections or []:
        cmd += ["-j", s]
    r = subprocess.run(cmd + [obj], capture_output=True, text=True)
    if r.returncode != 0:
        raise HarnessError(f"objdump failed: {r.stderr}")
    return r.stdout


def windows_code(prefixes, tail: bytes) -> bytes:
    return b"".join(p + tail + NOP_SLED for p in prefixes)


def real_stream_and_list(h, mop, text: str, name="t.txt", crlf=False):
    """Run the real parser+consumer on a listing text: (stream string, parsed Instruction list).
    crlf: the file is written with DOS line endings (the same lines; the stream must not change)"""
    from jasm.stringify_asm.implementations.gnu_objdump.asm_manual_parser_w_regex import parse_file_lines
    from jasm.global_definitions import Instruction
    path = h.write(name, text.replace("\n", "\r\n").encode("utf-8") if crlf else text)
    stream = h.match(mop, path, ret="stream")
    parsed = [e for e in parse_file_lines(text.split("\n")) if isinstance(e, Instruction)]
    return stream, parsed


def analyse_text(h, mop, text: str, clauses, crlf=False):
    """Compare the real parser's view of `text` with P.  Returns list of (clause, line/ctx, expected, observed),
    plus counters dict.  clauses subset of {'count','crash','mnemonic','operands','encoding'}."""
    problems = []
    cnt = {"lines": 0, "inst_lines": 0, "cont_lines": 0, "other_lines": 0, "simple_shape": 0}
    lines = text.split("\n")
    cls = [rm.classify_line(l) for l in lines]
    exp = [(i, c) for i, c in enumerate(cls) if c[0] == "inst"]
    cnt["lines"] = len(lines)
    cnt["inst_lines"] = len(exp)
    cnt["cont_lines"] = sum(1 for c in cls if c[0] == "cont")
    cnt["other_lines"] = len(lines) - cnt["inst_lines"] - cnt["cont_lines"]
    try:
        stream, parsed = real_stream_and_list(h, mop, text, crlf=crlf)
    except Exception as e:  # noqa
        if "crash" in clauses or "count" in clauses:
            # find the first offending line for the replay
            from jasm.stringify_asm.implementations.gnu_objdump.asm_manual_parser_w_regex import parse_line
            bad = None
            for l in lines:
                try:
                    parse_line(l)
                except Exception as e2:  # noqa
                    bad = (l, repr(e2))
                    break
            problems.append(("crash", bad[0] if bad else None, "no exception", bad[1] if bad else repr(e)))
        return problems, cnt
    parsed_list = [(i.addr, i.mnemonic, tuple(i.operands)) for i in parsed if i.mnemonic != "empty"]
    try:
        dec = rm.decode(stream)
        dec_err = None
    except ValueError as e:
        dec, dec_err = None, str(e)
    # ---- C10 encoding: the stream decodes to exactly the parsed list
    if "encoding" in clauses:
        if dec is None:
            problems.append(("encoding", None, "decodable stream", dec_err))
        elif dec != parsed_list:
            if len(dec) != len(parsed_list):
                problems.append(("encoding", None, f"{len(parsed_list)} records", f"{len(dec)} records"))
            for a, b in zip(dec, parsed_list):
                if a != b:
                    problems.append(("encoding", _line_of(lines, cls, b), b, a))
        elif rm.encode(dec) != stream:
            problems.append(("encoding", None, "encode(decode(stream)) == stream", "differs"))
    # C08/C09 speak about the instruction STREAM patterns are matched against: use its records when it decodes,
    # the parse list otherwise (an undecodable stream is C10's finding)
    real = dec if dec is not None else parsed_list
    # ---- C08 count / order / address / mnemonic
    if "count" in clauses or "mnemonic" in clauses or "operands" in clauses:
        if len(real) != len(exp) or any(r[0] != cls[i][1] for r, (i, _) in zip(real, exp)):
            j = next((k for k, (r, (i, _)) in enumerate(zip(real, exp)) if r[0] != cls[i][1]), min(len(real), len(exp)))
            line = lines[exp[j][0]] if j < len(exp) else None
            if "count" in clauses:
                problems.append(("count", line, f"{len(exp)} instructions; first difference at #{j}",
                                 f"{len(real)} instructions; got {real[j] if j < len(real) else None}"))
            return problems, cnt
        for r, (i, c) in zip(real, exp):
            text_i = c[2]
            toks = [t for t in text_i.replace("\t", " ").split(" ") if t]
            if "mnemonic" in clauses:
                allowed = set(toks) | ({"bad"} if "(bad)" in toks else set()) | {t.split(",")[0] for t in toks[:1]} \
                    | {t[:-3] for t in toks if t.endswith((",pn", ",pt"))}      # branch hints are not part of the mnemonic, also after prefix words
                if r[1] not in allowed:
                    problems.append(("mnemonic", lines[i], f"one of {sorted(allowed)[:6]}", r[1]))
            e = rm.expected_instruction(c[1], text_i)
            if e is not None:
                cnt["simple_shape"] += 1
                if "operands" in clauses and r[2] != e[2]:   # the mnemonic is C08's clause
                    problems.append(("operands", lines[i], e, r))
    return problems, cnt


def _line_of(lines, cls, ctx, _cache={}):
    if not ctx:
        return None
    key = id(lines)
    if _cache.get("key") != key:
        _cache.clear()
        _cache["key"] = key
        _cache["map"] = {c[1]: l for l, c in zip(lines, cls) if c[0] == "inst"}
    return _cache["map"].get(ctx[0])


# ----------------------------------------------------------------------------- byte-window family

def window_shards(tier):
    """One shard per (elf class, first byte): all 256 second bytes x the tier's tails; plus, per elf
    class, one shard with all 256 one-byte prefixes x all tails."""
    sh = []
    for cls in (64, 32):
        sh.append({"kind": "one", "cls": cls})
        for b0 in range(256):
            sh.append({"kind": "two", "cls": cls, "b0": b0})
    for cls in (64, 32):    # the two-byte opcode map under every mandatory prefix: the SSE / system instruction vocabulary
        for esc in ("0f", "660f", "f20f", "f30f"):
            sh.append({"kind": "esc", "cls": cls, "esc": esc})
    if tier == "thorough":
        for cls in (64, 32):
            for esc in ("0f38", "0f3a", "c4e1", "c4e2", "c4e3", "c5", "62f1", "6766", "2e3e", "4866", "f066"):
                sh.append({"kind": "esc", "cls": cls, "esc": esc})
    return sh


def tails_for(tier):
    return TAILS[:3] if tier == "quick" else TAILS


def shard_prefixes(shard):
    if shard["kind"] == "one":
        return [bytes([b]) for b in range(256)]
    if shard["kind"] == "two":
        return [bytes([shard["b0"], b]) for b in range(256)]
    esc = bytes.fromhex(shard["esc"])
    return [esc + bytes([b]) for b in range(256)] + [esc + bytes([b, c]) for b in (0x00, 0x10, 0x58, 0xc0) for c in range(256)]


_TRIVIAL_RULE = {"pattern": ["zzzznomatch"]}


def run_window_shard(shard, tier, h, res, known, clauses, prop):
    mop = h.mop(_TRIVIAL_RULE)
    prefixes = shard_prefixes(shard)
    for ti, tail in enumerate(tails_for(tier) if shard["kind"] != "one" else TAILS):
        code = windows_code(prefixes, tail)
        obj = build_object(h, f"w_{os.getpid()}", code, shard["cls"])
        text = objdump_text(obj)
        problems, cnt = analyse_text(h, mop, text, clauses)
        res.evaluations += cnt["inst_lines"] + cnt["cont_lines"] + cnt["other_lines"]
        res.nontrivial += cnt["inst_lines"]
        for k, v in cnt.items():
            res.count(k, v)
        seen = set()
        for clause, line, exp, obs in problems:
            sig = (clause, (line or "").split("\t")[-1] if line else str(obs))
            if sig in seen:
                continue
            seen.add(sig)
            res.fail({"clause": clause, "family": "window", "line": line, "elfclass": shard["cls"],
                      "expected": str(exp)[:300], "observed": str(obs)[:300], "size": len(line or "")}, known)
        if len(res.samples) < 1:
            il = [l for l in text.split("\n") if rm.classify_line(l)[0] == "inst"]
            res.samples.append({"elfclass": shard["cls"], "prefix": prefixes[len(prefixes) // 3].hex(), "tail": tail.hex(),
                                "objdump_lines": il[200:203]})


def replay_line(case, h, clauses):
    """Replay a single recorded objdump line through parse_line / the consumer."""
    line = case.get("line")
    text = "\n".join(["", "x:     file format elf64-x86-64", "", "Disassembly of section .text:", "", line or "", ""])
    problems, _ = analyse_text(h, h.mop(_TRIVIAL_RULE), text, clauses, crlf=bool(case.get("crlf")))
    problems = [p for p in problems if p[0] == case["clause"]]
    return bool(problems), str(problems)


# ----------------------------------------------------------------------------- truncated-at-end-of-section family

PREFIX_BYTES = [0x66, 0x67, 0xf0, 0xf2, 0xf3, 0x2e, 0x36, 0x3e, 0x26, 0x64, 0x65] + list(range(0x40, 0x50)) + [0x0f, 0xc4, 0xc5, 0x62, 0x9b]


def eos_shards(tier):
    """Sections that END in the enumerated bytes (no sled): objdump then prints dangling prefixes, truncated
    instructions and '(bad)' lines.  One object per shard with one section per byte sequence."""
    sh = []
    for cls in (64, 32):
        sh.append({"kind": "eos", "cls": cls, "first": None})
        firsts = PREFIX_BYTES if tier == "quick" else list(range(256))
        for b0 in firsts:
            sh.append({"kind": "eos", "cls": cls, "first": b0})
    return sh


def run_eos_shard(shard, tier, h, res, known, clauses, prop):
    mop = h.mop(_TRIVIAL_RULE)
    seqs = [bytes([b]) for b in range(256)] if shard["first"] is None else [bytes([shard["first"], b]) for b in range(256)]
    src = []
    for i, sq in enumerate(seqs):
        src.append(f'.section .t{i:03d},"ax"\n .byte 0x90,' + ",".join(f"0x{x:02x}" for x in sq) + "\n")
    sp = h.write(f"eos_{os.getpid()}.s", "".join(src))
    obj = h.path(f"eos_{os.getpid()}.o")
    r = subprocess.run(["as", f"--{shard['cls']}", sp, "-o", obj], capture_output=True, text=True)
    if r.returncode != 0:
        raise HarnessError("as failed: " + r.stderr[:300])
    text = objdump_text(obj)
    # addresses restart at 0 in every section: analyse section by section so that address-based reporting stays unique
    parts = text.split("Disassembly of section ")
    for part in parts[1:]:
        t = "Disassembly of section " + part
        problems, cnt = analyse_text(h, mop, t, clauses)
        res.evaluations += cnt["inst_lines"] + cnt["cont_lines"]
        res.nontrivial += cnt["inst_lines"]
        res.count("eos_sections")
        for clause, line, exp, obs in problems:
            res.fail({"clause": clause, "family": "eos", "line": line, "elfclass": shard["cls"], "expected": str(exp)[:300],
                      "observed": str(obs)[:300], "size": len(line or "")}, known)
    if len(res.samples) < 1 and len(parts) > 3:
        res.samples.append({"end_of_section_lines": [l for l in parts[3].split("\n") if "\t" in l][:3]})


# ----------------------------------------------------------------------------- exotic instruction family (real as + objdump)

EXOTIC64 = """
 movss %xmm1,%xmm0
 addss %xmm2,%xmm3
 mulss 0x8(%rax,%rbx,4),%xmm1
 cvtsi2ss %eax,%xmm1
 cvtsi2ssl 0x8(%rsp),%xmm2
 rsqrtss %xmm1,%xmm2
 lss 0x10(%rax),%ebx
 lfs (%rax),%ecx
 lgs 0x8(%rax,%rbx,2),%edx
 movs %ds:(%rsi),%es:(%rdi)
 stos %al,%es:(%rdi)
 cmpxchg8b (%rax)
 vmovups %zmm0,0x40(%rax,%rbx,4){%k1}
 vmovups 0x40(%rax,%rbx,4),%zmm0{%k1}{z}
 vaddps (%rax){1to16},%zmm1,%zmm2
 vaddps 0x8(%rax,%rcx,8){1to16},%zmm1,%zmm2{%k2}
 vaddps {rn-sae},%zmm1,%zmm2,%zmm3
 vscatterdps %zmm1,0x10(%rax,%zmm2,4){%k1}
 vgatherdps (%rax,%zmm1,4),%zmm2{%k1}
 vpcmpeqd (%rax,%rbx,2),%zmm1,%k2{%k3}
 vgatherdps (%rax,%zmm31,4),%zmm1{%k1}
 vgatherdps 0x10(%rax,%zmm17,4),%zmm21{%k2}
 vscatterdps %zmm1,0x10(%r8,%zmm10,8){%k1}
 vgatherdpd 0x8(,%xmm15,8),%xmm2{%k1}
 vpgatherdd %ymm1,(%r8,%ymm12,4),%ymm2
 vpgatherdd %xmm1,-0x80(%r15,%xmm11,1),%xmm14
 vaddps %zmm30,%zmm29,%zmm28{%k7}{z}
 lea 0x8(%eax,%r10d,4),%eax
 lea -0x7fffffff(%r13d,%r15d,8),%r9d
 mov 0xa(%rax),%rcx
 mov 0x1a(%rax),%rcx
 mov -0x1b(%rbx),%rcx
 mov 0x8(%r8),%r8
 mov 0x10(%r10),%r10b
 mov 0x4d(%rdi),%dil
 mov 0x5e(%esi),%sil
 mov %spl,0x1c(%rcx)
 movss %xmm1,%xmm0
 addss 0x8(%rax),%xmm9
 xsaves (%rdi)
 lods %ds:(%rsi),%ax
 vblendvps %xmm3,%xmm2,%xmm1,%xmm0
 vinsertf128 $0x1,%xmm1,%ymm2,%ymm3
 vpternlogd $0xff,%zmm1,%zmm2,%zmm3
 vpermil2ps $0x0,%xmm3,(%rax),%xmm1,%xmm0
 {vex} vpdpbusd %ymm2,%ymm1,%ymm0
 {evex} vpaddd %xmm1,%xmm2,%xmm3
 .byte 0xdb,0xe0
 .byte 0xdb,0xe1
 .byte 0xdb,0xe4
 .byte 0xdb,0xe5
 .byte 0xf3,0x0f,0xa7,0xd0
 kmovw %k1,%k2
 fadd %st(1),%st
 fxch %st(3)
 fstp %st(2)
 movs %ds:(%rsi),%es:(%rdi)
 rep movsb
 repz cmpsb %es:(%rdi),%ds:(%rsi)
 lods %ds:(%rsi),%al
 scas %es:(%rdi),%al
 xlat %ds:(%rbx)
 mov %fs:0x28,%rax
 mov %gs:0x10(%rax,%rbx,2),%rcx
 call *%fs:0x28
 jmp *0x10(%rax,%rbx,8)
 ljmp *0x10(%rax)
 lcall *(%rax)
 in (%dx),%al
 out %al,(%dx)
 enter $0x10,$0x1
 lock cmpxchg %rax,(%rbx)
 lock xadd %eax,0x8(%rsp,%rcx,4)
 xacquire lock incl (%rax)
 bnd jmp *%rax
 notrack jmp *%rax
 data16 rex.W nop
 rex.WRB nop
 cs nopw 0x0(%rax,%rax,1)
 nopw %cs:0x0(%rax,%rax,1)
 movabs $0x1122334455667788,%rax
 movabs 0x1122334455667788,%al
 vpermilps $0x1b,0x10(%rax,%rbx,4),%ymm1
 vfmadd231ps (%rax,%rbx,1),%ymm1,%ymm2
 pextrw $0x3,%xmm1,0x8(%rax,%rbx,2)
 shld $0x4,%rax,0x8(%rbx,%rcx,8)
 shld %cl,%rax,(%rbx,%rcx,8)
 imul $0x10,0x8(%rax,%rbx,4),%rcx
 bextr %rax,0x8(%rbx,%rcx,4),%rdx
 crc32b 0x8(%rax,%rbx,1),%ecx
 jrcxz .+2
 loop .-2
 xbegin .+6
 .byte 0x2e,0x70,0x02
 .byte 0x3e,0x71,0x02
 .byte 0x66,0x2e,0x74,0x05
 .byte 0x66,0x3e,0x75,0x05
 .byte 0x66,0x2e,0xe3,0x05
 .byte 0xf2,0x2e,0x70,0x05
 .byte 0x66,0x66,0x2e,0x74,0x05
 .byte 0x3e,0xe2,0x05
 .byte 0x66,0x3e,0xe2,0x05
 .byte 0xf2,0x3e,0x0f,0x84,1,0,0,0
 .byte 0x66,0x2e,0x0f,0x85,1,0
 .byte 0x66
"""
EXOTIC32 = """
 mov 0x8(%bx,%si),%ax
 addr16 mov (%bx,%di),%al
 addr16 lea 0x10(%bp,%si),%ax
 mov (%bx),%al
 lcall $0x10,$0x401000
 ljmp $0x8,$0x1000
 bound %eax,(%ebx)
 les (%eax),%ebx
 pusha
 mov %cs:(%eax,%ebx,4),%ecx
 jcxz .+2
 call *0x10(%eax,%ebx,4)
 fadd %st(7),%st
 into
 aam $0xa
 arpl %ax,(%eax,%ebx,2)
"""


# ----------------------------------------------------------------------------- corpus: every line of real listings

SYSTEM_BINARIES = ["/usr/bin/objdump", "/bin/ls", "/usr/bin/as", "/usr/bin/gdb"]     # thorough only, when present


def corpus_shards(tier):
    """one shard per binary under <repo>/tests/binary (disassembled here with the real objdump) and one for all listing files
    under <repo>/tests/assembly: a value-rich space (every register, prefix, suffix, symbol and addressing form these
    programs contain), enumerated completely - every line is judged"""
    import glob
    sh = [{"kind": "corpus", "binary": p} for p in sorted(glob.glob(os.path.join(REPO, "tests", "binary", "*")))]
    sh.append({"kind": "corpus", "listings": sorted(glob.glob(os.path.join(REPO, "tests", "assembly", "*.s")))})
    if tier == "thorough":
        sh += [{"kind": "corpus", "binary": p} for p in SYSTEM_BINARIES if os.path.exists(p)]
    return sh


def run_corpus(shard, h, res, known, clauses):
    mop = h.mop(_TRIVIAL_RULE)
    texts = []
    if "binary" in shard:
        r = subprocess.run(["objdump", "-d", "-M", "att", shard["binary"]], capture_output=True, text=True)
        if r.returncode != 0:
            res.count("corpus_files_not_disassembled")
            return
        texts.append((shard["binary"], r.stdout))
    for p in shard.get("listings", []):
        texts.append((p, open(p, encoding="utf-8", errors="replace").read()))
    for path, text in texts:
        for crlf in ((False, True) if len(text) < 200000 else (False,)):     # smaller listings also with DOS line endings
            problems, cnt = analyse_text(h, mop, text, clauses, crlf=crlf)
            res.evaluations += cnt["inst_lines"]
            res.nontrivial += cnt["inst_lines"]
            res.count("corpus_lines", cnt["inst_lines"])
            res.count("corpus_files")
            for clause, line, exp, obs in problems[:40]:
                res.fail({"clause": clause, "family": "corpus", "file": path.replace(REPO, "<repo>"), "line": line, "crlf": crlf, "expected": str(exp)[:300],
                          "observed": str(obs)[:300], "size": len(line or "")}, known)


def run_exotic(h, res, known, clauses):
    mop = h.mop(_TRIVIAL_RULE)
    for cls, srctext in ((64, EXOTIC64), (32, EXOTIC32)):
        sp = h.write(f"exotic{cls}.s", ".text\n" + srctext)
        obj = h.path(f"exotic{cls}.o")
        r = subprocess.run(["as", f"--{cls}", sp, "-o", obj], capture_output=True, text=True)
        if r.returncode != 0:
            raise HarnessError(f"as failed on the exotic-{cls} source: " + r.stderr[:400])
        # the default layout (7 raw bytes per line + continuation lines) and `--insn-width=15` (every instruction on ONE line,
        # up to 15 raw bytes in the byte column)
        for extra in ((), ("--insn-width=15",)):
            text = objdump_text(obj, extra=extra)
            for crlf in (False, True):       # the same listing saved with DOS line endings
                problems, cnt = analyse_text(h, mop, text, clauses, crlf=crlf)
                res.evaluations += cnt["inst_lines"]
                res.nontrivial += cnt["inst_lines"]
                res.count("exotic_lines_wide" if extra else "exotic_lines", cnt["inst_lines"])
                for clause, line, exp, obs in problems:
                    res.fail({"clause": clause, "family": "exotic", "line": line, "elfclass": cls, "crlf": crlf, "wide": bool(extra),
                              "expected": str(exp)[:300], "observed": str(obs)[:300], "size": len(line or "")}, known)
