"""TLC model <-> implementation conformance for C14: run TLC on tla/JasmConfig.tla, read the dumped state graph, and
produce one replay obligation per distinct (model state core, step) pair: the shortest model path to the state, the step,
and the model's successor core and outcome.  The obligations are replayed against the real code by checks/C14.py."""
from __future__ import annotations

import os
import re
import shutil
import subprocess
import tempfile

from mc.common import HarnessError, VERIF

VARS = ("mn", "opf", "style", "rng", "sec", "res")


def run_tlc():
    d = tempfile.mkdtemp(prefix="jasmverif_tlc_")
    try:
        for f in ("JasmConfig.tla", "JasmConfig.cfg"):
            shutil.copy(os.path.join(VERIF, "tla", f), d)
        dot = os.path.join(d, "graph.dot")
        r = subprocess.run(["tlc", "-workers", "1", "-noGenerateSpecTE", "-metadir", os.path.join(d, "meta"), "-dump", "dot,actionlabels", dot,
                            "JasmConfig"], cwd=d, capture_output=True, text=True, timeout=600)
        out = r.stdout + r.stderr
        if "No error has been found" not in out:
            raise HarnessError("TLC did not verify the model: " + out[-600:])
        m = re.search(r"(\d+) states generated, (\d+) distinct states found", out)
        stats = {"tlc_states_generated": int(m.group(1)), "tlc_distinct_states": int(m.group(2))} if m else {}
        return open(dot).read(), stats
    finally:
        shutil.rmtree(d, ignore_errors=True)


def parse_dot(text):
    nodes, edges = {}, []
    for line in text.split("\n"):
        m = re.match(r'^(-?\d+) -> (-?\d+) \[label="Load\(([^)]*)\)"', line)
        if m:
            args = tuple(a.strip().replace('\\"', "") for a in m.group(3).split(","))
            edges.append((m.group(1), args, m.group(2)))
            continue
        m = re.match(r'^(-?\d+) \[label="(.*)"', line)
        if m:
            lab = m.group(2).replace("\\n", "\n").replace('\\"', '"').replace("\\\\", "\\")
            vals = {}
            for v in VARS:
                mm = re.search(rf'/\\ {v} = "([^"]*)"', lab)
                if mm:
                    vals[v] = mm.group(1)
            nodes[m.group(1)] = vals
    return nodes, edges


def obligations():
    """-> (list of {path: [op...], step: op, expect_core: [...], expect_res: str}, stats)"""
    text, stats = run_tlc()
    nodes, edges = parse_dot(text)
    if not nodes or not edges:
        raise HarnessError("could not parse the TLC state graph")

    def core(n):
        v = nodes[n]
        return (v["mn"], v["opf"], v["style"], v["rng"], v["sec"])
    init = [n for n, v in nodes.items() if v.get("res") == "none"]
    if len(init) != 1:
        raise HarnessError("no unique initial state in the TLC graph")
    succ = {}
    for a, args, b in edges:
        succ.setdefault(a, []).append((args, b))
    # BFS on cores
    path = {core(init[0]): []}
    rep = {core(init[0]): init[0]}
    frontier = [init[0]]
    while frontier:
        nxt = []
        for n in frontier:
            for args, b in succ.get(n, []):
                cb = core(b)
                if cb not in path:
                    path[cb] = path[core(n)] + [args]
                    rep[cb] = b
                    nxt.append(b)
        frontier = nxt
    obs, seen = [], set()
    for a, args, b in edges:
        key = (core(a), args)
        if key in seen:
            continue
        seen.add(key)
        obs.append({"path": ["cfg:" + ":".join(x) for x in path[core(a)]], "step": "cfg:" + ":".join(args),
                    "from_core": list(core(a)), "expect_core": list(core(b)), "expect_res": nodes[b]["res"]})
    stats.update({"model_core_states": len(path), "model_transitions_distinct": len(obs), "model_edges": len(edges)})
    return obs, stats
