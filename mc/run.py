#!/venv/bin/python
"""Dispatcher: /venv/bin/python mc/run.py <property-id> --tier quick|thorough

exit 0  property held on everything explored (KNOWN-FINDING lines possible)
exit 1  at least one `VIOLATION property=<id> replay=<path>` line was printed
exit 2  harness error (positive control failed, tool missing, crash in harness code)
"""
from __future__ import annotations

import argparse
import importlib
import json
import os
import sys
import time

HERE = os.path.dirname(os.path.abspath(__file__))
VERIF = os.path.dirname(HERE)
sys.path.insert(0, VERIF)

from mc import common  # noqa: E402
from mc.common import Harness, HarnessError, run_sharded  # noqa: E402

KF_PATH = os.path.join(VERIF, "known_findings.json")


def load_known(prop: str):
    """-> (key -> finding id, finding id -> entry)"""
    if not os.path.exists(KF_PATH):
        return {}, {}
    data = json.load(open(KF_PATH))
    key2f, fid2e = {}, {}
    for e in data.get("open", []):
        if prop not in e.get("properties", [e.get("property")]):
            continue
        fid2e[e["id"]] = e
        for k in e.get("inputs", {}).get(prop, []) if isinstance(e.get("inputs"), dict) else e.get("inputs", []):
            key2f[k] = e["id"]
    return key2f, fid2e


def main(argv=None) -> int:
    ap = argparse.ArgumentParser()
    ap.add_argument("prop")
    ap.add_argument("--tier", default=os.environ.get("VERIF_TIER", "quick"), choices=["quick", "thorough"])
    ap.add_argument("--nproc", type=int, default=0)
    ap.add_argument("--dump-fail-keys", default=None, help="maintenance: write all failing case keys to this file")
    args = ap.parse_args(argv)
    prop = args.prop
    t0 = time.time()
    os.chdir(VERIF)
    mod = importlib.import_module(f"checks.{prop}")
    key2f, fid2e = load_known(prop)
    known_keys = set(key2f)

    # ---- positive controls (harness sanity): failure is exit 2, never a verdict
    try:
        if hasattr(mod, "controls"):
            h = Harness()
            try:
                mod.controls(h)
            finally:
                h.close()
    except HarnessError as e:
        print(f"HARNESS-ERROR property={prop} {e}")
        return 2

    try:
        shards = mod.shards(args.tier)
        results = run_sharded(prop, shards, args.tier, known_keys, args.nproc or None)
    except HarnessError as e:
        print(f"HARNESS-ERROR property={prop} {e}")
        return 2
    errs = [r.error for r in results if r.error]
    if errs:
        print(f"HARNESS-ERROR property={prop} {errs[0]}")
        return 2

    evaluations = sum(r.evaluations for r in results)
    nontrivial = sum(r.nontrivial for r in results)
    counters: dict[str, int] = {}
    for r in results:
        for k, v in r.counters.items():
            counters[k] = counters.get(k, 0) + v
    samples = []
    for r in results:
        for s in r.samples:
            if len(samples) < 6:
                samples.append(s)
    fail_keys = [fk for r in results for fk in r.fail_keys]
    details = [d for r in results for d in r.fail_details]

    if args.dump_fail_keys:
        json.dump(sorted(set(map(tuple, fail_keys))), open(args.dump_fail_keys, "w"))

    # ---- attribution
    known_hits: dict[str, int] = {}
    unknown_keys = []
    for k, clause, _fam in fail_keys:
        if k in key2f:
            known_hits[key2f[k]] = known_hits.get(key2f[k], 0) + 1
        else:
            unknown_keys.append(k)
    for fid, n in sorted(known_hits.items()):
        e = fid2e[fid]
        print(f"KNOWN-FINDING: property={prop} {fid}: {e['what']} ({n} listed failing inputs re-observed)")
    for fid, e in sorted(fid2e.items()):
        if fid not in known_hits and args.tier in e.get("tiers", ["quick", "thorough"]):
            print(f"NOTE property={prop} listed finding {fid} was not re-observed in this run (stale entry?)")

    violations = 0
    seen = set()
    rdir = os.path.join(os.environ.get("VERIF_REPLAY_DIR") or os.path.join(VERIF, "replays"), prop)
    for d in sorted(details, key=lambda d: (d.get("size", 0), d["key"])):
        if d["key"] in key2f or d["key"] in seen:
            continue
        seen.add(d["key"])
        if violations >= common.MAX_REPORTED:
            break
        os.makedirs(rdir, exist_ok=True)
        path = os.path.join(rdir, d["key"] + ".json")
        d["property"] = prop
        d["tier"] = args.tier
        json.dump(d, open(path, "w"), indent=1, default=str)
        print(f"VIOLATION property={prop} replay={path}")
        print(f"  clause={d['clause']} expected={d.get('expected')!r} observed={d.get('observed')!r}")
        violations += 1
    n_unknown = len(set(unknown_keys))
    if n_unknown > violations:
        print(f"  ... {n_unknown} distinct unlisted failing inputs in total; first {violations} reported")

    # ---- evidence
    coverage = {
        "evaluations": evaluations,
        "distinct_nontrivial": nontrivial,
        "rule": mod.RULE,
        "samples": samples,
        "exhaustive": bool(getattr(mod, "EXHAUSTIVE", True)),
        "shards": len(shards),
        "counters": counters,
        "failing_inputs_total": len(set(k for k, _c, _f in fail_keys)),
        "failing_inputs_listed_as_known": len(set(k for k, _c, _f in fail_keys)) - n_unknown,
        "bounds": mod.bounds(args.tier) if hasattr(mod, "bounds") else {},
    }
    if hasattr(mod, "coverage_extra"):
        coverage.update(mod.coverage_extra(results, args.tier))
    ev = {
        "property_id": prop,
        "tier": args.tier,
        "seed": common.SEED,
        "level": mod.LEVEL,
        "coverage": coverage,
        "assumptions": list(getattr(mod, "ASSUMPTIONS", [])),
        "wall_s": round(time.time() - t0, 3),
        "violations": n_unknown,
    }
    evdir = os.environ.get("VERIF_EVIDENCE_DIR") or os.path.join(VERIF, "evidence")   # override only used by tools/seed_eval.py
    os.makedirs(evdir, exist_ok=True)
    json.dump(ev, open(os.path.join(evdir, f"{prop}.json"), "w"), indent=1, default=str)
    print(f"{prop} tier={args.tier} evaluations={evaluations} nontrivial={nontrivial} "
          f"failing_inputs={coverage['failing_inputs_total']} unlisted={n_unknown} wall={ev['wall_s']}s")
    return 1 if n_unknown else 0


if __name__ == "__main__":
    sys.exit(main())
