"""Reference models (oracles).  Deliberately free of regular expressions.

P  -- objdump line classifier + operand normaliser (the C08/C09/C10 specification)
R  -- reference matcher on a decoded instruction list (the C01-C07/C11 specification)

An instruction is a tuple (addr:str, mnemonic:str, operands:tuple[str,...]) with operands in
*normal form* (what C09 says patterns see).  An operand-less instruction has operands == ().
"""
from __future__ import annotations

import itertools

HEXDIGITS = set("0123456789abcdefABCDEF")

# --------------------------------------------------------------------------------------
# P: line classifier / operand normaliser
# --------------------------------------------------------------------------------------


def split_operands(text: str) -> list[str]:
    """Split on commas that are not inside parentheses."""
    out, depth, cur = [], 0, []
    for ch in text:
        if ch == "(":
            depth += 1
        elif ch == ")":
            depth = max(0, depth - 1)
        if ch == "," and depth == 0:
            out.append("".join(cur))
            cur = []
        else:
            cur.append(ch)
    out.append("".join(cur))
    return out


def _is_const(k: str) -> bool:
    k = k[1:] if k.startswith("-") else k
    k = k[2:] if k.startswith("0x") else k
    return k != "" and all(c in HEXDIGITS for c in k)


def _is_reg(r: str) -> bool:
    return r.startswith("%") and len(r) > 1 and all(c.isalnum() for c in r[1:])


def normalise_operand(op: str):
    """C09 table: $v->v, %r->%r, k(a,b,c)->[a+b*c+k], (a,b,c)->[a+b*c], k(,b,c)->[+b*c+k],
    k(a)->[a+k], (a)->[a]; direct targets (bare hex) unchanged.  Returns None for operand
    texts outside the table (segment overrides, *indirect, %st(1), ...): don't care."""
    if "(" in op and op.endswith(")"):
        i = op.index("(")
        k, inner = op[:i], op[i + 1:-1]
        if k and not _is_const(k):
            return None
        parts = inner.split(",")
        if len(parts) == 3:
            a, b, c = parts
            if (a and not _is_reg(a)) or not _is_reg(b) or c not in ("1", "2", "4", "8"):
                return None
            if not a and not k:
                return None
            core = f"{a}+{b}*{c}"
        elif len(parts) == 1:
            if not _is_reg(parts[0]):
                return None
            core = parts[0]
        else:
            return None  # outside the specified forms
        return f"[{core}+{k}]" if k else f"[{core}]"
    if op.startswith("$"):
        return op[1:] if _is_const(op[1:]) else None
    if _is_reg(op):
        return op
    if _is_const(op):
        return op
    return None


def classify_line(line: str):
    """Return ('inst', addr, text) for an instruction line, ('cont', addr) for a byte
    continuation line, ('other',) otherwise.  Splits on TAB only."""
    fields = line.split("\t")
    head = fields[0]
    stripped = head.lstrip(" ")
    if not stripped.endswith(":"):
        return ("other",)
    addr = stripped[:-1]
    if not addr or any(c not in HEXDIGITS for c in addr):
        return ("other",)
    if len(fields) < 2:
        return ("other",)
    byt = fields[1].strip(" ")
    toks = byt.split(" ")
    if not toks or any(len(t) != 2 or any(c not in HEXDIGITS for c in t) for t in toks):
        return ("other",)
    if len(fields) == 2:
        return ("cont", addr)
    text = "\t".join(fields[2:])
    if text.strip() == "":
        return ("cont", addr)
    return ("inst", addr, text)


INSTRUCTION_PREFIXES = {"data16", "data32", "addr16", "addr32", "lock", "rep", "repz", "repe", "repnz", "repne", "cs", "ds", "es",
                        "ss", "fs", "gs", "bnd", "notrack", "xacquire", "xrelease", "wait", "fwait"}


def expected_instruction(addr: str, text: str):
    """Specification of what an instruction line contributes, for lines of the simple
    shape 'mnemonic[ +operands][ <annotation>|# comment]' (no instruction prefixes).
    Returns (addr, mnemonic, operands) or None when the text is outside that shape."""
    t = text
    if "#" in t:
        t = t[: t.index("#")]
    t = t.rstrip(" ")
    toks = [x for x in t.split(" ") if x != ""]
    if not toks:
        return None
    mn = toks[0]
    if mn == "(bad)":
        mn = "bad"
    if mn in INSTRUCTION_PREFIXES or mn.startswith("rex"):
        return None    # 'lock cmpxchg ...', 'data16 daa', 'rex.W nop': which token is "the" mnemonic is not specified
    if len(toks) == 1:
        return (addr, mn, ())
    ops_text = toks[1]
    if len(toks) > 2:
        # only '<sym+off>' annotations may follow
        if not all(x.startswith("<") or x.endswith(">") for x in toks[2:]):
            return None
    ops = []
    for o in split_operands(ops_text):
        n = normalise_operand(o)
        if n is None:
            return None
        ops.append(n)
    return (addr, mn, tuple(ops))


def encode(insts) -> str:
    """C10: the stream encoding."""
    return "".join(f"{a}::{m},{','.join(o)},|" for a, m, o in insts)


def decode(stream: str):
    """Inverse of encode; raises ValueError if the stream is not well formed."""
    if stream == "":
        return []
    if not stream.endswith("|"):
        raise ValueError("stream does not end with |")
    out = []
    for rec in stream[:-1].split("|"):
        if "::" not in rec:
            raise ValueError(f"record without '::' {rec!r}")
        addr, rest = rec.split("::", 1)
        fields = rest.split(",")
        if len(fields) < 3 or fields[-1] != "":
            raise ValueError(f"record without terminator {rec!r}")
        mn, ops = fields[0], fields[1:-1]
        if ops == [""]:
            ops = []
        out.append((addr, mn, tuple(ops)))
    return out


# --------------------------------------------------------------------------------------
# R: reference matcher
# --------------------------------------------------------------------------------------

ANY = "[^, ]{1,1000}"  # the shipped @any macro body; treated as a token, never as a regex
ANY0 = "[^, ]{0,1000}"

REG_FAMILIES = {
    "&genreg": {
        "64": {"rax": "a", "rbx": "b", "rcx": "c", "rdx": "d"},
        "32": {"eax": "a", "ebx": "b", "ecx": "c", "edx": "d"},
        "16": {"ax": "a", "bx": "b", "cx": "c", "dx": "d"},
        "8h": {"ah": "a", "bh": "b", "ch": "c", "dh": "d"},
        "8l": {"al": "a", "bl": "b", "cl": "c", "dl": "d"},
    },
    "&indreg": {
        "64": {"rsi": "s", "rdi": "d"},
        "32": {"esi": "s", "edi": "d"},
        "16": {"si": "s", "di": "d"},
        "8l": {"sil": "s", "dil": "d"},
    },
    "&stackreg": {
        "64": {"rsp": "sp"}, "32": {"esp": "sp"}, "16": {"sp": "sp"}, "8l": {"spl": "sp"},
    },
    "&basereg": {
        "64": {"rbp": "bp"}, "32": {"ebp": "bp"}, "16": {"bp": "bp"}, "8l": {"bpl": "bp"},
    },
}
SUFFIXES = ("64", "32", "16", "8h", "8l")


def split_family(name: str):
    """'&genreg-1.64' -> ('&genreg', '&genreg-1', '64'); non-family -> None."""
    for fam in REG_FAMILIES:
        if name.startswith(fam):
            parts = name.split(".")
            if parts[-1].lower() in SUFFIXES and len(parts) > 1:
                return fam, ".".join(parts[:-1]), parts[-1].lower()
            return fam, name, None
    return None


def item_key(item: dict):
    return [k for k in item if k != "times"][0]


def times_of(item):
    if not isinstance(item, dict):
        return (1, 1)
    if "times" in item:
        t = item["times"]
    else:
        body = item[item_key(item)]
        t = body.get("times") if isinstance(body, dict) else None
    if t is None:
        return (1, 1)
    if isinstance(t, int):
        return (t, t)
    return (t.get("min", 1), t.get("max", 1))


class Ref:
    def __init__(self, full_mn=False, full_op=False):
        self.full_mn = full_mn
        self.full_op = full_op

    # ---------------- names
    def name_matches(self, name, field: str, full: bool) -> bool:
        name = str(name)
        if name == ANY:
            return field != ""
        if name == ANY0:
            return True
        return field == name if full else (name in field)

    # ---------------- operand level: generators of (next_operand_index, env)
    def ops(self, items, operands, k, env):
        if not items:
            yield k, env
            return
        for k2, env2 in self.op1(items[0], operands, k, env):
            yield from self.ops(items[1:], operands, k2, env2)

    def op1(self, item, operands, k, env):
        if isinstance(item, dict):
            key = item_key(item)
            body = item[key]
            if key == "$or":
                for alt in body:
                    yield from self.op1(alt, operands, k, env)
            elif key == "$and":
                yield from self.ops(body, operands, k, env)
            elif key == "$and_any_order":
                for perm in itertools.permutations(body):
                    yield from self.ops(list(perm), operands, k, env)
            elif key == "$not":
                if k < len(operands) and not any(True for _ in self.op1(body[0], operands, k, env)):
                    yield k + 1, env
            elif key == "$deref":
                if k < len(operands):
                    for env2 in self.deref(body, operands[k], env):
                        yield k + 1, env2
            else:
                raise ValueError(f"unsupported operand item {item!r}")
            return
        name = str(item)
        if name.startswith("&"):
            if k >= len(operands):
                return
            fam = split_family(name)
            if fam:
                for env2 in self.family(fam, operands[k], env):
                    yield k + 1, env2
                return
            if operands[k] == "":
                return
            if name in env:
                if env[name] == operands[k]:
                    yield k + 1, env
            else:
                yield k + 1, {**env, name: operands[k]}
            return
        if k < len(operands) and self.name_matches(name, operands[k], self.full_op):
            yield k + 1, env

    def family(self, fam, operand: str, env):
        family, base, suffix = fam
        reg = operand[1:] if operand.startswith("%") else operand
        table = REG_FAMILIES[family]
        widths = [suffix] if suffix else list(table)
        for w in widths:
            rid = table.get(w, {}).get(reg)
            if rid is None:
                continue
            if base in env:
                if env[base] == rid:
                    yield env
            else:
                yield {**env, base: rid}
            return

    # ---------------- $deref: component-wise on the bracket normal form
    @staticmethod
    def parse_bracket(operand: str):
        """'[a+b*c+k]' -> dict of present components, or None."""
        if not (operand.startswith("[") and operand.endswith("]")):
            return None
        inner = operand[1:-1]
        parts = inner.split("+")
        comp = {"main_reg": parts[0]}
        rest = parts[1:]
        if rest and "*" in rest[0]:
            b, c = rest[0].split("*", 1)
            comp["register_multiplier"], comp["constant_multiplier"] = b, c
            rest = rest[1:]
        if len(rest) == 1:
            comp["constant_offset"] = rest[0]
        elif len(rest) > 1:
            return None
        return comp

    def deref(self, body: dict, operand: str, env):
        comp = self.parse_bracket(operand)
        if comp is None:
            return
        fields = {k: v for k, v in body.items() if k != "times"}
        if set(fields) != set(comp):
            return
        order = ["main_reg", "register_multiplier", "constant_multiplier", "constant_offset"]
        present = [f for f in order if f in fields]

        def rec(i, env):
            if i == len(present):
                yield env
                return
            f = present[i]
            prefix = "%" if f in ("main_reg", "register_multiplier") else "0x"
            for env2 in self.deref_field(fields[f], comp[f], prefix, env):
                yield from rec(i + 1, env2)

        yield from rec(0, env)

    def deref_field(self, pat, value: str, prefix: str, env):
        """pat: leaf name | [ {$or: [...]} ] | '&capture' ; value: component text."""
        if isinstance(pat, list):
            assert len(pat) == 1
            pat = pat[0]
        if isinstance(pat, dict):
            key = item_key(pat)
            if key == "$or":
                for alt in pat[key]:
                    yield from self.deref_field(alt, value, prefix, env)
                return
            raise ValueError(f"unsupported deref field {pat!r}")
        name = str(pat)
        cands = [value]
        if value.startswith(prefix):
            cands.append(value[len(prefix):])
        elif prefix == "0x" and value.startswith("-0x"):
            cands.append("-" + value[3:])
        if name.startswith("&"):
            fam = split_family(name)
            if fam:
                yield from self.family(fam, value, env)
                return
            for c in cands:
                if c == "":
                    continue
                if name in env:
                    if env[name] == c:
                        yield env
                else:
                    yield {**env, name: c}
            return
        if name == ANY:
            if any(c != "" for c in cands):
                yield env
            return
        if name in cands:
            yield env

    # ---------------- instruction level: generators of (next_index, env)
    def seq(self, items, insts, i, env):
        if not items:
            yield i, env
            return
        for j, env2 in self.inst1(items[0], insts, i, env):
            yield from self.seq(items[1:], insts, j, env2)

    def inst1(self, item, insts, i, env):
        lo, hi = times_of(item)

        def rep(r, i, env):
            if r == 0:
                yield i, env
                return
            for j, e2 in self.once(item, insts, i, env):
                yield from rep(r - 1, j, e2)

        for r in range(lo, hi + 1):
            yield from rep(r, i, env)

    @staticmethod
    def ops_eff(inst):
        return list(inst[2]) if inst[2] else [""]

    def once(self, item, insts, i, env):
        if isinstance(item, dict):
            key = item_key(item)
            body = item[key]
            if key == "$and":
                yield from self.seq(body, insts, i, env)
                return
            if key == "$or":
                for alt in body:
                    yield from self.inst1(alt, insts, i, env)
                return
            if key == "$and_any_order":
                for perm in itertools.permutations(body):
                    yield from self.seq(list(perm), insts, i, env)
                return
            if key == "$not":
                if i < len(insts) and not any(True for _ in self.inst1(body[0], insts, i, env)):
                    yield i + 1, env
                return
            opitems = body if isinstance(body, list) else []
            if i < len(insts) and self.name_matches(key, insts[i][1], self.full_mn):
                for _k, e2 in self.ops(opitems, self.ops_eff(insts[i]), 0, env):
                    yield i + 1, e2
            return
        name = str(item)
        if name.startswith("&"):
            if i < len(insts):
                text = ",".join([insts[i][1]] + self.ops_eff(insts[i]))
                if name in env:
                    if env[name] == text:
                        yield i + 1, env
                else:
                    yield i + 1, {**env, name: text}
            return
        if i < len(insts) and self.name_matches(name, insts[i][1], self.full_mn):
            yield i + 1, env

    # ---------------- capture-free fast path: the same semantics computed on sets of end indices with memoisation
    # (no environment to thread, so results per (item, start) can be shared).  Used only when the pattern contains no '&'.
    @staticmethod
    def _has_capture(node) -> bool:
        if isinstance(node, str):
            return node.startswith("&")
        if isinstance(node, list):
            return any(Ref._has_capture(x) for x in node)
        if isinstance(node, dict):
            return any(Ref._has_capture(k) or Ref._has_capture(v) for k, v in node.items())
        return False

    def _fast_seq(self, items, insts, i, memo):
        cur = {i}
        for it in items:
            nxt = set()
            for s in cur:
                nxt |= self._fast_inst1(it, insts, s, memo)
            cur = nxt
            if not cur:
                break
        return cur

    def _fast_inst1(self, item, insts, i, memo):
        key = (id(item), i)
        got = memo.get(key)
        if got is not None:
            return got
        lo, hi = times_of(item)
        out = set()
        cur = {i}
        r = 0
        if lo == 0:
            out.add(i)
        while r < hi and cur:
            nxt = set()
            for s in cur:
                nxt |= self._fast_once(item, insts, s, memo)
            r += 1
            cur = nxt
            if r >= lo:
                out |= cur
        memo[key] = out
        return out

    def _fast_once(self, item, insts, i, memo):
        if isinstance(item, dict):
            key = item_key(item)
            body = item[key]
            if key == "$and":
                return self._fast_seq(body, insts, i, memo)
            if key == "$or":
                out = set()
                for alt in body:
                    out |= self._fast_inst1(alt, insts, i, memo)
                return out
            if key == "$and_any_order":
                out = set()
                for perm in set(itertools.permutations(range(len(body)))):
                    out |= self._fast_seq([body[k] for k in perm], insts, i, memo)
                return out
            if key == "$not":
                return {i + 1} if i < len(insts) and not self._fast_inst1(body[0], insts, i, memo) else set()
        # mnemonic items: one instruction; operand matching has no environment either
        return {j for j, _ in self.once(item, insts, i, {})}

    # ---------------- public
    def ends(self, pattern, insts, i):
        if not self._has_capture(pattern):
            return set(self._fast_seq(pattern, insts, i, {}))
        return {j for j, _ in self.seq(pattern, insts, i, {})}

    def spans(self, pattern, insts):
        """set of (i, j): the pattern matches instructions i..j-1."""
        out = set()
        if not self._has_capture(pattern):
            memo = {}
            for i in range(len(insts) + 1):
                for j in self._fast_seq(pattern, insts, i, memo):
                    out.add((i, j))
            return out
        for i in range(len(insts) + 1):
            for j in self.ends(pattern, insts, i):
                out.add((i, j))
        return out

    def found(self, pattern, insts) -> bool:
        if not self._has_capture(pattern):
            memo = {}
            return any(self._fast_seq(pattern, insts, i, memo) for i in range(len(insts) + 1))
        for i in range(len(insts) + 1):
            for _ in self.seq(pattern, insts, i, {}):
                return True
        return False
