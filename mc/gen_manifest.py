#!/venv/bin/python
"""Regenerates /verif/MANIFEST.json from the check modules that exist (maintenance tool)."""
import importlib
import json
import os
import sys

VERIF = os.path.dirname(os.path.dirname(os.path.abspath(__file__)))
sys.path.insert(0, VERIF)
BASE = json.load(open("/root/.vp/BASELINE.json"))
props = [json.loads(l) for l in open(os.path.join(VERIF, "properties.jsonl"))]
checks, na = [], []
for p in props:
    pid = p["id"]
    if not os.path.exists(os.path.join(VERIF, "checks", pid + ".py")):
        na.append({"property_id": pid, "reason": "check not built yet (work in progress; see DESIGN.md section 4 for the planned bounded-exhaustive exploration)"})
        continue
    m = importlib.import_module(f"checks.{pid}")
    checks.append({
        "property_id": pid,
        "quick_cmd": f"/venv/bin/python mc/run.py {pid} --tier quick",
        "thorough_cmd": f"/venv/bin/python mc/run.py {pid} --tier thorough",
        "evidence_file": f"/verif/evidence/{pid}.json",
        "replay_cmd_template": "/venv/bin/python mc/replay.py {path}",
        "engine": getattr(m, "ENGINE", "E1"),
        "level_claimed": {"category": m.LEVEL, "text": m.LEVEL_TEXT, "design_ref": f"DESIGN.md section 4 ({pid})"},
        "level_note": m.LEVEL_NOTE,
        "technique": m.TECHNIQUE,
    })
man = {
    "version": 1,
    "setup_cmd": "/venv/bin/python mc/setup_check.py",
    "hooks": {
        "guard": "JUKMR_JASM_VERIF",
        "enable": "no source hooks are needed: every observation point is a public API (MasterOfPuppets, Yaml2Regex, parse_line, python -m jasm.main); checks import /repo/src directly, so they always run /repo's working tree",
        "baseline_off_cmd": "cd /repo && /venv/bin/python -m pytest -ra -q -p no:cacheprovider --timeout=900 --continue-on-collection-errors",
        "source_commits": [],
        "add_only": True,
    },
    "engines": [
        {"name": "E1", "path": "mc/e1.py", "serves_properties": ["C01", "C02", "C03", "C04", "C05", "C06", "C07", "C11", "C12", "C18"],
         "kind_free_text": "bounded-exhaustive rule x listing x config product explorer driving the real compiler/parser/regex through the public API; oracle = regex-free reference matcher"},
        {"name": "E2", "path": "mc/objspace.py", "serves_properties": ["C08", "C09", "C10", "C15", "C16"],
         "kind_free_text": "exhaustive objdump-text explorer: line grammar and real objdump output of enumerated code-byte windows; oracle = tab-splitting classifier / string-surgery normaliser"},
        {"name": "E3", "path": "mc/history.py", "serves_properties": ["C14"],
         "kind_free_text": "explicit-state search over operation histories on the real process state (fork server, canonical snapshot of JASMConfig), traces replayed in fresh interpreters"},
        {"name": "E4-E6", "path": "checks/", "serves_properties": ["C13", "C17", "C19", "C20"],
         "kind_free_text": "fault enumeration, macro-factoring enumeration, CLI option-space enumeration"},
    ],
    "checks": checks,
    "not_applicable": na,
    "notes": "All checks are bounded exhaustive explorations (model-checking family) of the real code; see DESIGN.md. known_findings.json lists genuine defects (open: exact failing inputs; fixed: repaired by fix: commits in /repo).",
}
json.dump(man, open(os.path.join(VERIF, "MANIFEST.json"), "w"), indent=1)
try:
    import jsonschema
except ImportError:
    jsonschema = None
if jsonschema:
    jsonschema.validate(man, json.load(open("/root/.vp/MANIFEST.schema.json")))
print("MANIFEST ok:", len(checks), "checks,", len(na), "not_applicable")
