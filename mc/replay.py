#!/venv/bin/python
"""Re-execute one replay file through the public API, without the explorer.
exit 1 if the recorded case still violates the property, 0 otherwise."""
import importlib
import json
import os
import sys

VERIF = os.path.dirname(os.path.dirname(os.path.abspath(__file__)))
sys.path.insert(0, VERIF)
from mc.common import Harness, ShardResult, limit_worker_memory  # noqa: E402


def replay_shard(case, mod):
    """a shard during which the worker died or ran out of memory: run that shard again in a child process"""
    import multiprocessing
    ctx = multiprocessing.get_context("fork")

    def body():
        limit_worker_memory()
        h = Harness()
        try:
            mod.run_shard(case["shard"], case.get("tier", "quick"), h, ShardResult(), set())
        finally:
            h.close()
    p = ctx.Process(target=body)
    p.start()
    p.join()
    return p.exitcode != 0, f"shard {case['shard']} ended with exit code {p.exitcode}"


def main():
    case = json.load(open(sys.argv[1]))
    mod = importlib.import_module(f"checks.{case['property']}")
    if case.get("family") == "worker" and case.get("clause") == "no-result":
        fails, msg = replay_shard(case, mod)
    elif case.get("family") == "uncaught":
        print(f"NOT-REPLAYABLE property={case['property']} clause={case.get('clause')}: the recorded exception escaped the check's own "
              f"handlers; rule and input are in the file under 'where'")
        return 1
    else:
        h = Harness()
        try:
            fails, msg = mod.replay(case, h)
        finally:
            h.close()
    print(("STILL-FAILS " if fails else "HOLDS ") + f"property={case['property']} clause={case.get('clause')} {msg}")
    return 1 if fails else 0


if __name__ == "__main__":
    sys.exit(main())
