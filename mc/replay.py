#!/venv/bin/python
"""Re-execute one replay file through the public API, without the explorer.
exit 1 if the recorded case still violates the property, 0 otherwise."""
import importlib
import json
import os
import sys

VERIF = os.path.dirname(os.path.dirname(os.path.abspath(__file__)))
sys.path.insert(0, VERIF)
from mc.common import Harness  # noqa: E402


def main():
    case = json.load(open(sys.argv[1]))
    mod = importlib.import_module(f"checks.{case['property']}")
    h = Harness()
    try:
        fails, msg = mod.replay(case, h)
    finally:
        h.close()
    print(("STILL-FAILS " if fails else "HOLDS ") + f"property={case['property']} clause={case.get('clause')} {msg}")
    return 1 if fails else 0


if __name__ == "__main__":
    sys.exit(main())
