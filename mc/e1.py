"""E1: rule x listing x config product explorer (shared by C01-C07, C11, C12).

Listings are sequences over a small *near-miss* instruction alphabet; every listing is turned into
objdump-style text on disk and goes through the real parser, consumer and regex engine.  The
oracle is refmodel.Ref evaluated on the decoded instruction list.
"""
from __future__ import annotations

import itertools
import os

from mc import refmodel as rm
from mc.common import JasmRaised, fmt_line, fmt_listing, flags_config, make_rule_doc, record_offsets, locate_matches

# addresses: distinct, increasing, lower-case hex, lengths 1..8, every hex digit used, one of them
# ("add") spells a mnemonic name used in rules
ADDRS = ["9", "1f", "add", "4b0e", "5d2f7", "6e8a10", "7c9b3d2", "8f0e1d2c"]

# AT&T-form instruction alphabet: (mnemonic, [operands])
ALPHA_MAIN = [
    ("mov", ["%rax", "%rbx"]),
    ("mov", ["%rbx", "%rax"]),          # same fields, swapped
    ("movl", ["$0x1", "%eax"]),         # mnemonic extension; eax contains 'ax'; 0x1 prefix of 0x10
    ("mov", ["$0x10", "%rax"]),
    ("imul", ["$0x10", "%rax", "%rbx"]),  # three operands: mov-like tail as operands 2,3
    ("push", ["%rax"]),                 # one operand
    ("ret", []),                        # none
    ("push", ["%r8d"]),
]

CONFIGS = [(False, False), (True, False), (False, True), (True, True)]

MN_NAMES = ["mov", "ov", "movl", "push", "ret", "add"]
OP_NAMES = ["rax", "ax", "%rax", "eax", "rbx", "0x1", "0x10", 1, "%r8"]


def _norm(o):
    n = rm.normalise_operand(o)
    return o if n is None else n   # operand texts outside the C09 table (e.g. %fs:0x28) reach patterns unchanged


def norm_inst(addr, mn, ops):
    return (addr, mn, tuple(_norm(o) for o in ops))


def listings_over(alphabet, maxlen, minlen=0):
    """All sequences (as index tuples) over the alphabet with minlen <= len <= maxlen."""
    for n in range(minlen, maxlen + 1):
        yield from itertools.product(range(len(alphabet)), repeat=n)


class ListingSet:
    """Materialised listings: index tuple -> (text path, normalised instruction list)."""

    def __init__(self, h, alphabet, maxlen, minlen=0, addrs=ADDRS):
        self.alphabet = alphabet
        self.items = []
        for n, idx in enumerate(listings_over(alphabet, maxlen, minlen)):
            att = [(addrs[p], alphabet[i][0], alphabet[i][1]) for p, i in enumerate(idx)]
            # every third listing prints its first instruction wrapped over two lines, as objdump does for long ones
            text = fmt_listing(att, wrapped=(n % 3 == 1))
            norm = [norm_inst(*x) for x in att]
            self.items.append((idx, h.listing_file(text), norm, att))

    def __iter__(self):
        return iter(self.items)

    def __len__(self):
        return len(self.items)


class ExplicitListingSet(ListingSet):
    def __init__(self, h, listings):
        self.items = []
        addrs = [f"{0x401000 + 3 * p:x}" for p in range(64)]
        for li, insts in enumerate(listings):
            att = [(addrs[p], m, o) for p, (m, o) in enumerate(insts)]
            norm = [norm_inst(*x) for x in att]
            self.items.append((li, h.listing_file(fmt_listing(att)), norm, att))



def describe_case(pattern, cfg, att):
    return {
        "rule": make_rule_doc(pattern, flags_config(*cfg)),
        "listing": [[a, m, list(o)] for a, m, o in att],
    }


class _Problems(list):
    """at most 40 problems per analysed case, long values shortened (a listing of 65 600 instructions may yield that many)"""

    def append(self, p):
        if len(self) < 40:
            clause, exp, obs = p
            list.append(self, (clause, _short(exp), _short(obs)))


def _short(v):
    if isinstance(v, str):
        return v if len(v) <= 2000 else v[:1500] + f" ...[{len(v)} chars]... " + v[-300:]
    if isinstance(v, (list, tuple)) and len(v) > 60:
        return type(v)(list(v[:50])) + type(v)([f"...[{len(v)} items]..."]) + type(v)(list(v[-5:]))
    if isinstance(v, tuple):
        return tuple(_short(x) for x in v)
    return v


def analyse(h, mop, ref, pattern, path, norm, *, want=("verdict",)):
    """Run the real matcher on one listing and compare with the reference.
    Returns list of (clause, expected, observed).  Clauses:
      verdict  found <=> R.found
      aligned  every reported text starts at a record start and ends at a record end (C07)
      genuine  every reported span is in R's match relation (C07/C11)
      scan     leftmost / non-overlapping / complete scan (C11)
      addr     address-only result = address of first covered instruction (C07)
    """
    problems = _Problems()
    texts = h.match(mop, path, ret="list", mode="all", only_addr=False)
    rfound = ref.found(pattern, norm)
    if not isinstance(texts, list) or not all(isinstance(t, str) for t in texts):
        return [("types", "a list of strings", repr(texts)[:200])], rfound
    if "verdict" in want and bool(texts) != rfound:
        problems.append(("verdict", rfound, texts))
    if len(want) == 1 and want[0] == "verdict":
        return problems, rfound
    stream = rm.encode(norm)
    offs = record_offsets(norm)
    offidx = {o: i for i, o in enumerate(offs)}
    spans_obs = []
    located = locate_matches(stream, texts)
    ok_align = True
    for t, loc in zip(texts, located):
        if loc is None or loc[0] not in offidx or loc[1] not in offidx:
            ok_align = False
            if "aligned" in want:
                problems.append(("aligned", "match covers whole records of " + (stream if len(stream) < 600 else stream[:300] + " ... " + stream[-200:]), t))
            continue
        spans_obs.append((offidx[loc[0]], offidx[loc[1]]))
    if ok_align and ({"genuine", "scan"} & set(want)):
        rspans = ref.spans(pattern, norm)
        for s in spans_obs:
            if s not in rspans and "genuine" in want:
                problems.append(("genuine", sorted(rspans), s))
        if "scan" in want and all(s in rspans for s in spans_obs):
            nonempty_starts = {i for i, j in rspans if j > i}
            prev_end = 0
            bad = None
            for (i, j) in spans_obs:
                if i < prev_end:
                    bad = ("overlap/order", spans_obs)
                    break
                for s in range(prev_end, i):
                    if s in nonempty_starts:
                        bad = (f"skipped start {s}", spans_obs)
                        break
                if bad:
                    break
                prev_end = j
            if not bad:
                for s in range(prev_end, len(norm)):
                    if s in nonempty_starts:
                        bad = (f"skipped start {s} after last match", spans_obs)
                        break
            if bad:
                problems.append(("scan", sorted(rspans), bad))
    if "addr" in want:
        # empty matches (patterns that can match the empty sequence) cover no instruction: out of scope
        addrs = h.match(mop, path, ret="list", mode="all", only_addr=True)
        listing_addr_set = {a for a, _, _ in norm}
        if len(addrs) != len(texts):
            problems.append(("addr", f"{len(texts)} addresses", addrs))
        else:
            for a, t, loc in zip(addrs, texts, located):
                if t == "":
                    continue
                if a not in listing_addr_set:
                    problems.append(("addr", "an address occurring in the input", a))
                elif loc is not None and loc[0] in offidx and offidx[loc[0]] < len(norm) and a != norm[offidx[loc[0]]][0]:
                    problems.append(("addr", norm[offidx[loc[0]]][0], a))
    return problems, rfound



def run_interleaved(shard, h, res, known, rules, lset, maxlen=2):
    """two matcher objects for the same rule under DIFFERENT flag settings are both constructed before either is used:
    each must still answer for its own setting (the flags belong to the rule, not to whatever was compiled last)"""
    from mc.common import flags_config, make_rule_doc
    jobs = [(r, c1, c2) for r in rules for c1 in CONFIGS for c2 in CONFIGS if c1 != c2]
    for ji in range(shard["lo"], len(jobs), shard["n"]):
        pat, c1, c2 = jobs[ji]
        m1 = h.mop(make_rule_doc(pat, flags_config(*c1)))
        m2 = h.mop(make_rule_doc(pat, flags_config(*c2)))
        for cfg, m in ((c1, m1), (c2, m2), (c1, m1)):
            r = rm.Ref(full_mn=cfg[0], full_op=cfg[1])
            for idx, path, norm, att in lset:
                if len(att) > maxlen:
                    continue
                res.evaluations += 1
                got = bool(h.match(m, path))
                want = r.found(pat, norm)
                if want:
                    res.nontrivial += 1
                if got != want:
                    res.fail({"clause": "verdict", "family": "interleave", "rule": make_rule_doc(pat, flags_config(*cfg)), "built_together_with": list(c2 if m is m1 else c1),
                              "listing": [[a, mn, list(o)] for a, mn, o in att], "expected": want, "observed": got, "size": len(att) * 10}, known)
                    break


def replay_interleaved(case, h):
    from mc.common import flags_config, fmt_listing, make_rule_doc
    pat = case["rule"]["pattern"]
    m1 = h.mop(case["rule"])
    h.mop(make_rule_doc(pat, flags_config(*case["built_together_with"])))      # the second object, built before the first is used
    att = [(a, m, list(o)) for a, m, o in case["listing"]]
    got = bool(h.match(m1, h.listing_file(fmt_listing(att))))
    return got != case["expected"], f"verdict {got}, expected {case['expected']}"


# ----------------------------------------------------------------------------- generic family runner

class RuleCase:
    """One rule to explore: pattern, which listing set, which flag configs, which clauses."""
    __slots__ = ("family", "pattern", "lset", "cfgs", "want", "extra")

    def __init__(self, family, pattern, lset="main", cfgs=((False, False),), want=("verdict",), extra=None):
        self.family, self.pattern, self.lset, self.cfgs, self.want, self.extra = family, pattern, lset, cfgs, tuple(want), extra


_LSETS: dict = {}


def get_lsets(h, tier, builder):
    """builder(h, tier) -> {name: ListingSet}; cached per worker process / scratch root."""
    key = (h.root, tier, builder.__module__)
    if key not in _LSETS:
        _LSETS.clear()
        _LSETS[key] = builder(h, tier)
    return _LSETS[key]


def first_item_matches_somewhere(ref, pattern, norm):
    if not pattern:
        return False
    for i in range(len(norm)):
        for _ in ref.inst1(pattern[0], norm, i, {}):
            return True
    return False


def run_rules(h, res, known, rules, lsets, shard, *, prop, macros=None, doc_extra=None, near_miss=None):
    """Explore rules[shard.lo::shard.n] x their listing sets x configs against the reference."""
    from mc.common import flags_config, make_rule_doc
    for ri in range(shard["lo"], len(rules), shard["n"]):
        rc = rules[ri]
        ls = lsets[rc.lset]
        variants = [(cfg, False) for cfg in rc.cfgs]
        if ri % 5 == 0:
            variants.append((rc.cfgs[0], True))   # same flags + a valid_addr_range (installs the optional observer; tags nothing here)
        for cfg, with_range in variants:
            config = flags_config(*cfg)
            if with_range:
                config = dict(config, valid_addr_range={"min": "fffffff0", "max": "ffffffff"})
            doc = make_rule_doc(rc.pattern, config)
            if doc_extra:
                doc.update(doc_extra)
            try:
                mop = h.mop(doc, macros=macros)
            except Exception as e:  # a valid rule must compile
                res.evaluations += 1
                res.fail({"clause": "compile", "rule": doc, "listing": [], "family": rc.family,
                          "expected": "compiles", "observed": repr(e), "size": len(str(rc.pattern))}, known)
                continue
            ref = rm.Ref(*cfg)
            for idx, path, norm, att in ls:
                res.evaluations += 1
                try:
                    problems, rfound = analyse(h, mop, ref, rc.pattern, path, norm, want=rc.want)
                except JasmRaised as ex:
                    rfound = ref.found(rc.pattern, norm)
                    problems = [("raises", "a result", str(ex))]
                if rfound:
                    res.nontrivial += 1
                    res.count("found")
                else:
                    res.count("notfound")
                    if near_miss(rc, norm) if near_miss else first_item_matches_somewhere(ref, rc.pattern, norm):
                        res.nontrivial += 1
                for clause, exp, obs in problems:
                    c = {"rule": doc, "listing": [[a, m, list(o)] for a, m, o in att], "family": rc.family,
                         "listing_text": open(path, newline="").read(), "clause": clause, "expected": exp, "observed": obs,
                         "size": len(att) * 10 + len(str(rc.pattern))}
                    res.fail(c, known)
        if len(res.samples) < 2 and len(ls) > 1:
            res.samples.append({"family": rc.family, "rule": make_rule_doc(rc.pattern, flags_config(*rc.cfgs[-1])),
                                "listing": [[a, m, list(o)] for a, m, o in ls.items[(ri * 7 + 3) % len(ls)][3]]})


def replay_case(case, h, want=("verdict",)):
    """Generic replay of a case produced by run_rules."""
    doc = case["rule"]
    # The explorers write an item that occurs twice as ONE object (YAML then emits an anchor and an alias); the JSON replay
    # file has lost that identity: restore it for equal mapping items of the pattern list
    pat = doc.get("pattern")
    if isinstance(pat, list):
        for i, x in enumerate(pat):
            if isinstance(x, dict):
                for j in range(i):
                    if pat[j] == x:
                        pat[i] = pat[j]
                        break
    cfgd = doc.get("config", {}) or {}
    cfg = (bool(cfgd.get("mnemonics-full-match")), bool(cfgd.get("operands-full-match")))
    att = [(a, m, list(o)) for a, m, o in case["listing"]]
    norm = [norm_inst(*x) for x in att]
    try:
        mop = h.mop(doc, macros=case.get("macros"))
    except Exception as e:
        return case.get("clause") == "compile", f"compile raised {e!r}"
    text = case.get("listing_text") or fmt_listing(att)
    lpath = h.write("replay_listing.s", text.encode() if "\r" in text else text)
    try:
        problems, rfound = analyse(h, mop, rm.Ref(*cfg), doc["pattern"], lpath, norm, want=tuple(case.get("want") or want))
    except JasmRaised as ex:
        return True, f"perform_matching raised {ex}"
    problems = [p for p in problems if p[0] == case.get("clause")] or problems
    return bool(problems), f"reference found={rfound}; problems={problems}"


def std_shards(tier, quick=64, thorough=256):
    n = quick if tier == "quick" else thorough
    return [{"lo": i, "n": n} for i in range(n)]


# ----------------------------------------------------------------------------- long-listing family (shared)

BOUNDARIES = (4096, 8192, 32768, 65536)


def long_positions(n, wlen, boundaries=BOUNDARIES):
    """Start positions for a window of wlen instructions in a listing of n: start, end, and every way of touching /
    straddling each power-of-two boundary below n."""
    pos = {0, n - wlen}
    for b in boundaries:
        if b + wlen < n:
            for p in range(b - wlen, b + 1):
                pos.add(p)
    return sorted(p for p in pos if 0 <= p <= n - wlen)


def long_listing_text(n, window, pos, filler=("nop", []), base=0x400000, step=3):
    """n instructions: filler everywhere except `window` (list of (mnemonic, operands)) at instruction index pos."""
    lines = ["", "x:     file format elf64-x86-64", "", "", "Disassembly of section .text:", "", f"{base:016x} <f>:"]
    fl = None
    for i in range(n):
        if pos <= i < pos + len(window):
            m, o = window[i - pos]
            lines.append(fmt_line(f"{base + step * i:x}", m, o))
        else:
            if fl is None:
                fl = fmt_line("@@", filler[0], filler[1])
            lines.append(fl.replace("@@", f"{base + step * i:x}", 1))
    return "\n".join(lines) + "\n"


def run_long_family(h, res, known, shard, cases, ns, *, prop, filler=("nop", []), extra_check=None):
    """cases: list of (pattern, window) where the pattern matches the window exactly once and nothing made of filler
    (the caller's obligation; asserted with the reference on a small listing).  For every n in ns and every boundary
    position: all-matches must be exactly [address of the window], first-match the same, bool True; and with the window
    removed (pure filler) the rule must not be found."""
    from mc.common import make_rule_doc
    jobs = [(ci, n) for ci in range(len(cases)) for n in ns]
    for ji in range(shard["lo"], len(jobs), shard["n"]):
        ci, n = jobs[ji]
        pattern, window = cases[ci][:2]
        positive = cases[ci][2] if len(cases[ci]) > 2 else True     # False: a near-miss window the rule must NOT match anywhere
        small = [norm_inst(str(k), m, o) for k, (m, o) in enumerate([filler] * 2 + list(window) + [filler] * 2)]
        rspans = rm.Ref().spans(pattern, small)
        if positive and not (rspans and min(rspans)[0] == 2 and all(i >= 2 and j <= 2 + len(window) for i, j in rspans)):
            from mc.common import HarnessError
            raise HarnessError(f"long-family case {pattern} does not match (only) inside its window: {rspans}")
        if not positive and rspans:
            from mc.common import HarnessError
            raise HarnessError(f"long-family negative case {pattern} matches: {rspans}")
        want_span = max(j for i, j in rspans if i == 2) - 2 if positive else 0   # records covered by the greedy leftmost match
        mop = h.mop(make_rule_doc(pattern))
        for pos in long_positions(n, len(window)) + [None]:
            text = long_listing_text(n, window if pos is not None else [], pos if pos is not None else 0, filler)
            path = h.write(f"longfam_{os.getpid()}.s", text)
            res.evaluations += 1
            res.nontrivial += 1
            want = [f"{0x400000 + 3 * pos:x}"] if (pos is not None and positive) else []
            try:
                got_all = h.match(mop, path, mode="all", only_addr=True)
                got_first = h.match(mop, path, mode="first", only_addr=True)
                got_bool = h.match(mop, path, ret="bool", mode="first")
                problems = []
                if got_all[:1] != want or (not want and got_all):
                    problems.append(("long-all", want, got_all[:5]))
                if got_first != want:
                    problems.append(("long-first", want, got_first[:5]))
                if got_bool != bool(want):
                    problems.append(("long-bool", bool(want), got_bool))
                if want:
                    t_first, t_all = h.match(mop, path, mode="first"), h.match(mop, path, mode="all")
                    if t_first != t_all[:1]:
                        problems.append(("long-first-text", [t[:160] for t in t_all[:1]], [t[:160] for t in t_first]))
                if extra_check:
                    problems += extra_check(h, mop, path, n, pos, window)
            except JasmRaised as ex:
                problems = [("raises", "a result", str(ex))]
            for clause, exp, obs in problems:
                res.fail({"clause": clause, "family": "longlisting", "rule": make_rule_doc(pattern), "n_instructions": n, "window_at": pos, "positive": positive,
                          "window": [[m, list(o)] for m, o in window], "expected": exp, "observed": obs, "size": n}, known)


def replay_long_case(case, h, filler=("nop", [])):
    from mc.common import make_rule_doc
    n, pos = case["n_instructions"], case["window_at"]
    window = [(m, list(o)) for m, o in case["window"]]
    text = long_listing_text(n, window if pos is not None else [], pos if pos is not None else 0, filler)
    path = h.write("longfam_replay.s", text)
    mop = h.mop(case["rule"])
    want = [f"{0x400000 + 3 * pos:x}"] if (pos is not None and case.get("positive", True)) else []
    try:
        a, f, b = h.match(mop, path, mode="all", only_addr=True), h.match(mop, path, mode="first", only_addr=True), h.match(mop, path, ret="bool", mode="first")
        tf, ta = h.match(mop, path, mode="first"), h.match(mop, path, mode="all")
    except JasmRaised as ex:
        return True, str(ex)
    return (a[:1], f, b) != (want, want, bool(want)) or tf != ta[:1], f"all={a[:5]} first={f[:5]} bool={b} expected {want}; first text == all[0]: {tf == ta[:1]}"
