"""Shared harness: scratch space, listing formatting, driving the real JASM code through its
public API, sharded execution, evidence / violation / known-finding plumbing."""
from __future__ import annotations

import hashlib
import json
import multiprocessing
import os
import random
import shutil
import sys
import tempfile
import time
import traceback

import yaml

VERIF = os.path.dirname(os.path.dirname(os.path.abspath(__file__)))
REPO = os.environ.get("JASM_REPO", "/repo")
SEED = int(os.environ.get("VERIF_SEED", "0") or 0)
NPROC = int(os.environ.get("VERIF_NPROC", "0") or 0) or min(16, os.cpu_count() or 1)
MAX_REPORTED = 25  # distinct unlisted violations reported per run

os.environ.setdefault("PYTHONHASHSEED", "0")

# make sure we test /repo's working tree (jasm is installed editable from /repo/src; be explicit)
_src = os.path.join(REPO, "src")
if _src not in sys.path:
    sys.path.insert(0, _src)


class HarnessError(Exception):
    """The harness itself is broken (positive control failed, tool missing): exit code 2."""


class JasmRaised(Exception):
    """perform_matching() of the real code raised on an input for which the check expects a result."""

    def __init__(self, exc, where):
        super().__init__(f"{type(exc).__name__}: {exc}")
        self.where = where


class EnoughFailures(BaseException):
    """a shard has collected FAIL_CAP failing inputs that no known finding lists: the verdict is settled, exploring the
    rest of the shard would only cost time (a change that breaks everything can also make every call slow)"""


FAIL_CAP = int(os.environ.get("VERIF_FAIL_CAP", "500"))


class OperationDeadline(BaseException):
    """One compile or match call of the real code did not return within CALL_DEADLINE_S (BaseException: the code under
    test must not be able to swallow it)."""


# One call of the real code is bounded in time and the worker in memory, so that a change that makes JASM loop or
# allocate without bound ends as a verdict for the input at hand instead of a hung or killed exploration.
# JASM's own regex timeout is 60 s; the deadline is far above anything the unchanged code needs (< 1 s per call).
CALL_DEADLINE_S = float(os.environ.get("VERIF_CALL_DEADLINE_S", "240"))
SHARD_DEADLINE_S = float(os.environ.get("VERIF_SHARD_DEADLINE_S", "900"))    # quick; thorough: x8
WORKER_MEM_GB = float(os.environ.get("VERIF_WORKER_MEM_GB", "3"))


def _on_alarm(signum, frame):
    raise OperationDeadline(f"no result after {CALL_DEADLINE_S:.0f} s")


class deadline:
    """with deadline(): <call into the real code>  -- SIGALRM based, main thread of the worker only"""
    _installed = False

    def __enter__(self):
        import signal
        import threading
        self.on = threading.current_thread() is threading.main_thread()
        if self.on:
            if not deadline._installed:
                signal.signal(signal.SIGALRM, _on_alarm)
                deadline._installed = True
            signal.setitimer(signal.ITIMER_REAL, CALL_DEADLINE_S)
        return self

    def __exit__(self, *a):
        if self.on:
            import signal
            signal.setitimer(signal.ITIMER_REAL, 0)
        return False


def limit_worker_memory():
    import resource
    lim = int(WORKER_MEM_GB * (1 << 30))
    try:
        resource.setrlimit(resource.RLIMIT_AS, (lim, lim))
    except (ValueError, OSError):
        pass


# ----------------------------------------------------------------------------- scratch

def scratch_root() -> str:
    base = "/dev/shm" if os.path.isdir("/dev/shm") and os.access("/dev/shm", os.W_OK) else None
    return tempfile.mkdtemp(prefix="jasmverif_", dir=base)


# ----------------------------------------------------------------------------- listings

def fmt_line(addr: str, mnemonic: str, operands, *, indent=2, nbytes=3, annot=None, comment=None) -> str:
    """One objdump -d style instruction line.  operands: AT&T operand texts."""
    byts = " ".join(["%02x" % ((7 * i + 0x48) & 0xFF) for i in range(nbytes)]) + " "
    byts = byts.ljust(21)
    text = mnemonic
    if operands:
        text = f"{mnemonic:<6} {','.join(operands)}"
    if annot:
        text += f" <{annot}>"
    if comment:
        text += f"        # {comment}"
    return f"{' ' * indent}{addr}:\t{byts}\t{text}"


def fmt_listing(insts, *, header=True, label=True, wrapped=False) -> str:
    """insts: iterable of (addr, mnemonic, [AT&T operands]) -> objdump -d style text.
    wrapped: print the first instruction as objdump prints a >7-byte instruction (7 bytes + a continuation line)."""
    lines = []
    if header:
        lines += ["", "a.out:     file format elf64-x86-64", "", "", "Disassembly of section .text:", ""]
    if label:
        first = insts[0][0] if insts else "0"
        lines.append(f"{int(first, 16):016x} <f>:")
    for k, (a, m, o) in enumerate(insts):
        if wrapped and k == 0:
            lines.append(fmt_line(a, m, o, nbytes=7))
            lines.append(f"  {int(a, 16) + 7:x}:\t00 00 00 ")
        else:
            lines.append(fmt_line(a, m, o))
    return "\n".join(lines) + "\n"


def case_key(obj) -> str:
    return hashlib.sha1(json.dumps(obj, sort_keys=True, default=str).encode()).hexdigest()[:16]


# ----------------------------------------------------------------------------- driving JASM

class Harness:
    """Per-process driver of the real code.  Nothing here looks inside JASM: it writes files
    and calls MasterOfPuppets / Yaml2Regex exactly as a user of the library would."""

    def __init__(self, root: str | None = None):
        self.own = root is None
        self.root = root or scratch_root()
        os.makedirs(self.root, exist_ok=True)
        self._n = 0
        self._listing_cache: dict[str, str] = {}
        from jasm import global_definitions as gd  # noqa
        from jasm.match import MasterOfPuppets
        import logging
        lg = logging.getLogger("jasm.logging_config")
        if not any(isinstance(x, logging.NullHandler) for x in lg.handlers):
            lg.addHandler(logging.NullHandler())   # keep logger.error() lines of expected failures off our stderr
        self.gd = gd
        self.MasterOfPuppets = MasterOfPuppets

    def close(self):
        if self.own:
            shutil.rmtree(self.root, ignore_errors=True)

    def path(self, name: str) -> str:
        return os.path.join(self.root, name)

    def write(self, name: str, text: str | bytes) -> str:
        p = self.path(name)
        if isinstance(text, bytes):
            with open(p, "wb") as f:
                f.write(text)
        else:
            with open(p, "w", encoding="utf-8", newline="") as f:   # independent of the locale the check runs under
                f.write(text)
        return p

    def rule_file(self, doc, name: str | None = None) -> str:
        """doc: python object of the YAML rule document (or a raw string)."""
        if name is None:
            self._n += 1
            name = f"rule_{os.getpid()}_{self._n % 4}.yaml"
        text = doc if isinstance(doc, str) else yaml.safe_dump(doc, sort_keys=False, default_flow_style=False)
        return self.write(name, text)

    def listing_file(self, text: str) -> str:
        p = self._listing_cache.get(text)
        if p is None:
            if len(self._listing_cache) > 200000:
                # forget the names, keep the files: listing sets built earlier still refer to them (they live in the
                # scratch root, which is removed when the run ends)
                self._listing_cache.clear()
                self._listing_gen = getattr(self, "_listing_gen", 0) + 1
            p = self.write(f"l_{os.getpid()}_{getattr(self, '_listing_gen', 0)}_{len(self._listing_cache)}_{case_key(text)}.s", text)
            self._listing_cache[text] = p
        return p

    # A "polluting" decoy operation: every global the rule compiler / matcher reads is set to a value that would change
    # verdicts if it leaked into the next operation (both full-match flags on, an all-covering valid_addr_range, a
    # sections list, two capture groups).  Run before every real compilation, so that every check also explores each
    # case from a non-initial process state (state leaks are C14's subject, but they falsify every other property too).
    DECOY_RULE = {"config": {"mnemonics-full-match": True, "operands-full-match": True, "sections": [".decoy"],
                             "valid_addr_range": {"min": "0", "max": "ffffffffffffffff"}},
                  "pattern": [{"call": ["&decoy1"]}, "&decoy2"]}
    DECOY_LISTING = [("401000", "call", ["401030"]), ("401005", "jmp", ["401030"]), ("40100a", "mov", ["%rax", "%rbx"])]
    decoy_every = 1

    # Failing decoys: operations that raise at different stages (config loading, macro resolution, $deref building,
    # regex compilation after the input was consumed, missing input).  A failure must not leave anything behind.
    FAILING_DECOYS = [
        ({"config": {"mnemonics-full-match": True, "sections": "notalist"}, "pattern": ["mov"]}, True),
        ({"macros": [{"name": "@z", "pattern": "x"}], "pattern": ["@nosuch"]}, True),
        ({"pattern": [{"mov": [{"$deref": {"main_reg": "&indreg-9.8H"}}]}]}, True),
        ({"config": {"operands-full-match": True}, "pattern": [{"mov": ["(%rbx"]}]}, True),
        ({"config": {"valid_addr_range": {"min": "0", "max": "ffffffffffffffff"}}, "pattern": ["call"]}, False),  # input missing
    ]

    def _decoy(self):
        self._decoys = getattr(self, "_decoys", 0) + 1
        if not self.decoy_every or self._decoys % self.decoy_every:
            return
        gd = self.gd
        lp = self.listing_file(fmt_listing(self.DECOY_LISTING))
        n = self._decoys // max(1, self.decoy_every)
        doc, has_input = self.FAILING_DECOYS[n % len(self.FAILING_DECOYS)]
        fp = self.write(f"decoyfail_{os.getpid()}.yaml", yaml.safe_dump(doc, sort_keys=False))
        rp = self.write(f"decoy_{os.getpid()}.yaml", yaml.safe_dump(self.DECOY_RULE, sort_keys=False))

        def failing():      # one failing operation (round robin); its exception is expected and swallowed
            try:
                self.MasterOfPuppets(gd.MatchConfig(pattern_pathstr=fp, input_file=lp if has_input else self.path("nosuchinput.s"),
                                                    return_mode=gd.MatchingReturnMode.matched_addrs_list,
                                                    matching_mode=gd.MatchingSearchMode.all_finds)).perform_matching()
            except Exception:  # noqa
                pass

        def polluting():    # the decoy itself misbehaving under a seeded change is not a verdict of this check
            try:
                self.MasterOfPuppets(gd.MatchConfig(pattern_pathstr=rp, input_file=lp, return_mode=gd.MatchingReturnMode.matched_addrs_list,
                                                    matching_mode=gd.MatchingSearchMode.all_finds)).perform_matching()
            except Exception:  # noqa
                pass

        # alternate the order, so that the real operation directly follows a failed one every other time
        for step in ((failing, polluting) if (n // len(self.FAILING_DECOYS)) % 2 == 0 else (polluting, failing)):
            step()

    def mop(self, rule_doc, *, macros=None, input_file="", binary=False, rule_path=None):
        gd = self.gd
        self._decoy()
        path = rule_path or self.rule_file(rule_doc)
        cfg = gd.MatchConfig(
            pattern_pathstr=path,
            input_file=input_file,
            input_file_type=gd.InputFileType.binary if binary else gd.InputFileType.assembly,
            return_only_address=False,
            return_mode=gd.MatchingReturnMode.matched_addrs_list,
            matching_mode=gd.MatchingSearchMode.all_finds,
            macros=macros,
        )
        try:
            with deadline():
                return self.MasterOfPuppets(cfg)
        except (Exception, OperationDeadline) as e:  # noqa: callers that expect compile errors catch Exception; elsewhere this becomes a verdict, not a harness error
            raise JasmRaised(e, {"rule_file": path, "stage": "compile", "macros": macros}) from e

    def match(self, mop, input_file: str, *, ret="list", mode="all", only_addr=False):
        gd = self.gd
        c = mop.match_config
        c.input_file = input_file
        c.return_mode = {"list": gd.MatchingReturnMode.matched_addrs_list, "bool": gd.MatchingReturnMode.bool,
                         "stream": gd.MatchingReturnMode.all_instructions_string}[ret]
        c.matching_mode = gd.MatchingSearchMode.all_finds if mode == "all" else gd.MatchingSearchMode.first_find
        c.return_only_address = only_addr
        try:
            with deadline():
                r = mop.perform_matching()
            return list(r) if isinstance(r, list) else r      # a copy: the object must not hand out a list it keeps changing
        except (Exception, OperationDeadline) as e:  # noqa
            raise JasmRaised(e, {"input_file": input_file, "ret": ret, "mode": mode, "only_addr": only_addr,
                                 "rule_file": c.pattern_pathstr}) from e


def make_rule_doc(pattern, config=None, macros=None):
    d = {}
    if config:
        d["config"] = config
    if macros:
        d["macros"] = macros
    d["pattern"] = pattern
    return d


def flags_config(full_mn: bool, full_op: bool) -> dict:
    c = {}
    if full_mn:
        c["mnemonics-full-match"] = True
    if full_op:
        c["operands-full-match"] = True
    return c


def record_offsets(insts_norm):
    """Offsets in the stream at which instruction records start (plus the end offset)."""
    offs = [0]
    for a, m, o in insts_norm:
        offs.append(offs[-1] + len(f"{a}::{m},{','.join(o)},|"))
    return offs


def locate_matches(stream: str, texts):
    """Map the full-text results of all-matches mode back to stream offsets, scanning left to
    right.  Returns list of (start, end) or None for a text that does not occur."""
    out, pos = [], 0
    for t in texts:
        p = stream.find(t, pos)
        if p < 0:
            out.append(None)
            continue
        out.append((p, p + len(t)))
        pos = p + max(len(t), 1) if len(t) else p
    return out


# ----------------------------------------------------------------------------- sharded execution

class ShardResult:
    def __init__(self):
        self.evaluations = 0
        self.nontrivial = 0
        self.counters: dict[str, int] = {}
        self.fail_keys: list[tuple[str, str, str]] = []   # (key, clause, family)
        self.fail_details: list[dict] = []           # details for failures not listed as known
        self.samples: list = []
        self.error: str | None = None
        self.unlisted = 0

    def count(self, name, n=1):
        self.counters[name] = self.counters.get(name, 0) + n

    def fail(self, case: dict, known_keys: set):
        """case must contain 'clause' and everything needed to replay."""
        key = case_key({k: v for k, v in case.items() if k not in ("observed", "expected", "note", "listing_text")})
        case["key"] = key
        self.fail_keys.append((key, case["clause"], case.get("family", "")))
        if key not in known_keys:
            if len(self.fail_details) < 40:
                self.fail_details.append(case)
            self.unlisted += 1
            if self.unlisted >= FAIL_CAP:
                raise EnoughFailures()
        return key


_WORKER = {}


def _worker_entry(args):
    check_mod, shard, tier, known_keys, root = args
    res = ShardResult()
    try:
        h = _WORKER.get("h")
        if h is None or not h.root.startswith(root):
            h = _WORKER["h"] = Harness(os.path.join(root, f"w{os.getpid()}"))
        mod = __import__(f"checks.{check_mod}", fromlist=["x"])
        mod.run_shard(shard, tier, h, res, known_keys)
    except HarnessError as e:
        res.error = f"HARNESS: {e}"
    except EnoughFailures:
        res.count("shards_stopped_at_failure_cap")
    except JasmRaised as e:
        # the real code raised where a result was expected and the check had no dedicated handler: still a verdict
        w = dict(e.where)
        for k in ("input_file", "rule_file"):
            try:
                w[k + "_content"] = open(w[k], newline="").read()[:4000]
            except Exception:  # noqa
                pass
        res.fail({"clause": "raises", "family": "uncaught", "where": {k: v for k, v in w.items() if not k.endswith("_file")},
                  "expected": "a result", "observed": str(e), "size": 0}, known_keys)
    except Exception:  # a crash in harness code is a harness error, not a verdict
        res.error = "HARNESS: " + traceback.format_exc()
    return res


def run_sharded(check_mod: str, shards: list, tier: str, known_keys: set, nproc: int | None = None):
    """Run mod.run_shard over all shards on a process pool (fork).  Order of shards is permuted
    by VERIF_SEED; the set of shards is not."""
    nproc = nproc or NPROC
    order = list(range(len(shards)))
    random.Random(SEED).shuffle(order)
    root = scratch_root()
    jobs = [(check_mod, shards[i], tier, known_keys, root) for i in order]
    results = []
    try:
        if nproc <= 1 or len(jobs) <= 1:
            for j in jobs:
                results.append(_worker_entry(j))
            _WORKER.pop("h", None)
            return results
        return _run_pool(jobs, nproc)
    finally:
        shutil.rmtree(root, ignore_errors=True)


def _pool_worker(conn):
    limit_worker_memory()
    while True:
        try:
            job = conn.recv()
        except EOFError:
            return
        if job is None:
            return
        try:
            conn.send(_worker_entry(job))
        except MemoryError:
            r = ShardResult()
            r.fail({"clause": "no-result", "family": "worker", "shard": job[1], "expected": "the shard completes",
                    "observed": f"MemoryError under the {WORKER_MEM_GB:g} GB worker limit", "size": 0}, job[3])
            conn.send(r)


def _run_pool(jobs, nproc):
    """Persistent fork workers fed one shard at a time.  A worker that dies (killed, hard crash of the code under test)
    does not hang the run: its shard is reported as a 'no-result' failure and a fresh worker takes its place."""
    from multiprocessing.connection import wait
    ctx = multiprocessing.get_context("fork")
    pending = list(reversed(jobs))
    results, workers = [], {}          # conn -> (process, current job)

    def spawn():
        a, b = ctx.Pipe()
        p = ctx.Process(target=_pool_worker, args=(b,), daemon=True)
        p.start()
        b.close()
        return a, p

    def feed(conn, p):
        if pending:
            job = pending.pop()
            conn.send(job)
            workers[conn] = (p, job, time.time())
        else:
            try:
                conn.send(None)
            except OSError:
                pass
            workers.pop(conn, None)
            conn.close()

    for _ in range(min(nproc, len(jobs))):
        feed(*spawn())
    def lost(conn, why):
        p, job, _ = workers.pop(conn)
        r = ShardResult()
        r.fail({"clause": "no-result", "family": "worker", "shard": job[1], "expected": "the shard completes", "observed": why(p), "size": 0}, job[3])
        results.append(r)
        conn.close()
        feed(*spawn())

    while workers:
        ready = wait(list(workers), timeout=20)
        for conn in ready:
            p, job, _ = workers[conn]
            try:
                results.append(conn.recv())
            except (EOFError, OSError):
                p.join(5)
                lost(conn, lambda p: f"worker process died (exit code {p.exitcode}) while the real code ran this shard")
                continue
            feed(conn, p)
        now = time.time()
        for conn, (p, job, t0) in list(workers.items()):
            limit = SHARD_DEADLINE_S * (1 if job[2] == "quick" else 8)
            if conn not in ready and now - t0 > limit:      # calls outside Harness.mop/match have no deadline of their own
                p.kill()
                p.join(5)
                lost(conn, lambda p: f"no result after {limit:.0f} s (worker killed)")
    return results
