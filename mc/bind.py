"""Binding of the reference models to the repository's own expectations."""
from __future__ import annotations

import os
import re

import yaml

from mc import refmodel as rm
from mc.common import REPO

SAFE = set("abcdefghijklmnopqrstuvwxyzABCDEFGHIJKLMNOPQRSTUVWXYZ0123456789%_.:$&-")


def _names_ok(node) -> bool:
    if isinstance(node, (int, str)):
        return all(c in SAFE for c in str(node))
    if isinstance(node, list):
        return all(_names_ok(x) for x in node)
    if isinstance(node, dict):
        for k, v in node.items():
            if k == "times":
                continue
            if k.startswith("$"):
                if k not in ("$and", "$or", "$not", "$and_any_order", "$deref"):
                    return False
            elif not all(c in SAFE for c in k):
                return False
            if v is not None and not _names_ok(v):
                return False
        return True
    return node is None


def parse_listing_text(text: str):
    """Independent parse of an objdump listing with P; returns instruction list or None if some
    instruction line is outside P's specified shapes."""
    insts = []
    for line in text.split("\n"):
        c = rm.classify_line(line)
        if c[0] != "inst":
            continue
        e = rm.expected_instruction(c[1], c[2])
        if e is None:
            return None
        insts.append(e)
    return insts


def validate_against_repo_tests(h, verbose=False) -> int:
    """Count repository test expectations (tests/configuration.yaml, assembly mode) that the
    reference matcher reproduces.  A disagreement raises HarnessError: the oracle is wrong."""
    from mc.common import HarnessError
    cfg = yaml.safe_load(open(os.path.join(REPO, "tests/configuration.yaml")))
    n = 0
    for e in cfg.get("test_matching", []):
        if "assembly" not in e or e.get("macros"):
            continue
        rp, ap = os.path.join(REPO, e["yaml"]), os.path.join(REPO, e["assembly"])
        if not (os.path.exists(rp) and os.path.exists(ap)) or os.path.getsize(ap) == 0:
            continue
        if os.path.getsize(ap) > 3_000_000:
            continue
        doc = yaml.safe_load(open(rp))
        if doc.get("macros") or not _names_ok(doc.get("pattern")):
            continue
        conf = doc.get("config") or {}
        if conf.get("valid_addr_range"):
            continue
        insts = parse_listing_text(open(ap, encoding="utf-8").read())
        if insts is None:
            continue
        ref = rm.Ref(bool(conf.get("mnemonics-full-match")), bool(conf.get("operands-full-match")))
        try:
            got = ref.found(doc["pattern"], insts)
        except (ValueError, RecursionError):
            continue
        if verbose:
            print(e["title"], got, e["expected"])
        if got != bool(e["expected"]):
            raise HarnessError(f"reference matcher contradicts repository test {e['title']!r}: {got} != {e['expected']}")
        n += 1
    return n
