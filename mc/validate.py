#!/usr/bin/env python3-vt
"""Validate MANIFEST.json and evidence/*.json against the schemas (run with python3-vt)."""
import glob, json, sys, os
import jsonschema
V = os.path.dirname(os.path.dirname(os.path.abspath(__file__)))
jsonschema.validate(json.load(open(f"{V}/MANIFEST.json")), json.load(open("/root/.vp/MANIFEST.schema.json")))
es = json.load(open("/root/.vp/EVIDENCE.schema.json"))
bad = 0
for f in sorted(glob.glob(f"{V}/evidence/*.json")):
    try:
        jsonschema.validate(json.load(open(f)), es)
    except Exception as e:
        bad += 1
        print("INVALID", f, str(e)[:300])
print("manifest valid; evidence files:", len(glob.glob(f"{V}/evidence/*.json")), "invalid:", bad)
sys.exit(1 if bad else 0)
