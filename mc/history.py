#!/venv/bin/python
"""E3: explicit-state search over operation histories on the real process state.

Run as a *fresh interpreter* (never imported into an already-used process):

  history.py baseline <workdir>            each operation first in its own fresh interpreter  (driver spawns them)
  history.py one <workdir> <op>            run one operation in this fresh interpreter, print its outcome
  history.py serve <workdir>               fork server: reads JSON histories on stdin, one per line; for each, forks
                                           a pristine child that executes the history and prints
                                           {"outcomes": [...], "snapshots": [...]} on one line
  history.py tree <workdir> <first_op> <depth>
                                           stateless exploration: every history of length <= depth that starts with
                                           first_op, by recursive forking (each node forks one child per operation)

A pristine process has imported jasm but executed nothing (JASMConfig._instance is None).
"""
from __future__ import annotations

import json
import os
import sys

VERIF = os.path.dirname(os.path.dirname(os.path.abspath(__file__)))
sys.path.insert(0, VERIF)
REPO = os.environ.get("JASM_REPO", "/repo")
sys.path.insert(0, os.path.join(REPO, "src"))

import yaml  # noqa: E402

# ----------------------------------------------------------------------------- inputs

L1 = [("401000", "mov", ["%rax", "%rbx"]), ("401003", "movl", ["$0x1", "%eax"]), ("401008", "push", ["%rax"]),
      ("401009", "push", ["%rax"]), ("40100a", "mov", ["%rbx", "%rax"]), ("40100d", "ret", []), ("40100e", "movl", ["$0x10", "%ecx"])]
L2 = [("401000", "call", ["401030"]), ("401005", "call", ["402030"]), ("40100a", "jmp", ["401030"]),
      ("40100f", "call", ["*%rax"]), ("401011", "mov", ["%rax", "%rbx"]), ("401014", "ret", [])]

BIN_SRC = ('.text\n push %rbp\n mov %rsp,%rbp\n ret\n.section .plt,"ax"\n push %rbx\n jmp *%rax\n'
           '.section .text.hot,"ax"\n xor %eax,%eax\n ret\n')

OP_DEADLINE_S = float(os.environ.get("VERIF_CALL_DEADLINE_S", "240"))

LIB_A = {"macros": [{"name": "@wrap", "pattern": [{"$or": ["@inner", "ret"]}]}]}
LIB_B = {"macros": [{"name": "@wrap", "pattern": [{"$and": ["@inner", "@inner"]}]}]}


def _r(pattern, config=None, macros=None):
    d = {}
    if config:
        d["config"] = config
    if macros:
        d["macros"] = macros
    d["pattern"] = pattern
    return d


# name -> dict(rule=doc, rule_path=<shared file name>, lib=(file name, content)|None, input=..., binary=bool, modes=(ret, mode, only_addr))
OPS = {
    "plain":        dict(rule=_r([{"mov": ["rax"]}]), rule_path="p1.yaml", input="L1"),
    "plain_ov":     dict(rule=_r(["ov"]), rule_path="p2.yaml", input="L1"),
    "mn_full":      dict(rule=_r(["ov"], {"mnemonics-full-match": True}), rule_path="p1.yaml", input="L1"),
    "mn_full_mov":  dict(rule=_r(["mov"], {"mnemonics-full-match": True}), rule_path="p2.yaml", input="L1"),
    "op_full":      dict(rule=_r([{"mov": ["rax"]}], {"operands-full-match": True}), rule_path="p1.yaml", input="L1"),
    "op_full_pct":  dict(rule=_r([{"mov": ["%rax"]}], {"operands-full-match": True, "mnemonics-full-match": False}), rule_path="p3.yaml", input="L1"),
    "range_a":      dict(rule=_r([{"call": ["valid_addr"]}], {"valid_addr_range": {"min": "401000", "max": "401fff"}}), rule_path="p1.yaml", input="L2"),
    "range_b":      dict(rule=_r([{"call": ["valid_addr"]}], {"valid_addr_range": {"min": "0x402000", "max": "0x402fff"}}), rule_path="p2.yaml", input="L2"),
    "norange":      dict(rule=_r([{"call": ["401030"]}]), rule_path="p1.yaml", input="L2"),
    "norange_jmp":  dict(rule=_r([{"jmp": ["401030"]}], {"style": "att"}), rule_path="p3.yaml", input="L2", modes=("bool", "first", False)),
    "bin_text":     dict(rule=_r(["push"], {"sections": [".text"]}), rule_path="p1.yaml", input="BIN", binary=True),
    "bin_plt":      dict(rule=_r(["push"], {"sections": [".plt"]}), rule_path="p2.yaml", input="BIN", binary=True),
    "bin_all":      dict(rule=_r(["push"]), rule_path="p1.yaml", input="BIN", binary=True),
    "bin_two":      dict(rule=_r(["ret"], {"sections": [".text.hot", ".text"]}), rule_path="p3.yaml", input="BIN", binary=True),
    "cap2":         dict(rule=_r([{"mov": ["&x", "&y"]}, "movl", "push", "push", {"mov": ["&y", "&x"]}]), rule_path="p1.yaml", input="L1"),
    "cap1":         dict(rule=_r([{"push": ["&r"]}, {"push": ["&r"]}]), rule_path="p2.yaml", input="L1"),
    "cap_inst":     dict(rule=_r(["&i", "&i"]), rule_path="p1.yaml", input="L1", modes=("list", "all", True)),
    "lib_mov":      dict(rule=_r(["@wrap", "movl"], None, [{"name": "@inner", "pattern": "mov"}]), rule_path="p1.yaml", lib=("lib.yaml", LIB_A), input="L1"),
    "lib_push":     dict(rule=_r(["@wrap", "push"], None, [{"name": "@inner", "pattern": "push"}]), rule_path="p2.yaml", lib=("lib.yaml", LIB_A), input="L1"),
    "lib_b_push":   dict(rule=_r(["@wrap"], None, [{"name": "@inner", "pattern": "push"}]), rule_path="p1.yaml", lib=("lib.yaml", LIB_B), input="L1"),
    "lib_undef":    dict(rule=_r(["@wrap", "movl"], None, [{"name": "@other", "pattern": "mov"}]), rule_path="p3.yaml", lib=("lib.yaml", LIB_A), input="L1"),
    "param_twice":  dict(rule=_r([{"@m": None, "a1": "rax", "a2": "rbx"}, "movl", "push", "push", {"@m": None, "a1": "rbx", "a2": "rax"}], None,
                                 [{"name": "@m", "args": ["a1", "a2"], "pattern": [{"mov": ["a1", "a2"]}]}]), rule_path="p2.yaml", input="L1"),
    "bad_config":   dict(rule=_r(["mov"], {"mnemonics-full-match": True, "operands-full-match": True, "sections": "notalist"}), rule_path="p1.yaml", input="L1"),
    "bad_range":    dict(rule=_r(["mov"], {"mnemonics-full-match": True, "valid_addr_range": {"min": "zz", "max": "10"}}), rule_path="p2.yaml", input="L1"),
    "mnfull_str":   dict(rule=_r(["ov"], {"mnemonics-full-match": "true"}), rule_path="p1.yaml", input="L1"),
    "opfull_str":   dict(rule=_r([{"mov": ["rax"]}], {"operands-full-match": "false", "mnemonics-full-match": False}), rule_path="p2.yaml", input="L1"),
    "sections_str": dict(rule=_r(["push"], {"sections": ".text"}), rule_path="p3.yaml", input="BIN", binary=True),
    "bad_not2":     dict(rule=_r([{"$not": ["mov", "push"]}, "ret"]), rule_path="p1.yaml", input="L1"),
    "empty_or":     dict(rule=_r(["mov", {"$or": []}]), rule_path="p2.yaml", input="L1"),
    "bad_suffix":   dict(rule=_r([{"push": ["&stackreg-1.8H"]}]), rule_path="p3.yaml", input="L1"),
    "bad_deref":    dict(rule=_r([{"mov": [{"$deref": {"constant_offset": "0x8"}}]}]), rule_path="p1.yaml", input="L1"),
    "bad_times":    dict(rule=_r([{"mov": {"times": {"min": 3, "max": 1}}}]), rule_path="p2.yaml", input="L1"),
    "bad_regex":    dict(rule=_r([{"mov": ["(%rbx"]}], {"operands-full-match": True}), rule_path="p3.yaml", input="L1"),
    "missing_in":   dict(rule=_r(["mov"], {"operands-full-match": True}), rule_path="p3.yaml", input="MISSING"),
    "hexh_full":    dict(rule=_r([{"movl": ["1h"]}], {"operands-full-match": True}), rule_path="p1.yaml", input="L1"),     # <hex>h number syntax
    "hexh_part":    dict(rule=_r([{"movl": ["1h"]}]), rule_path="p2.yaml", input="L1"),
    # the rule given through a symbolic link that stays in place while the file behind it is rewritten by other operations
    "sym_mov":      dict(rule=_r([{"mov": ["rbx", "rax"]}]), rule_path="p1.yaml", symlink=True, input="L1"),
    "sym_push":     dict(rule=_r(["push"]), rule_path="p1.yaml", symlink=True, input="L1", modes=("list", "all", True)),
    "first_bool":   dict(rule=_r([{"mov": ["rax"]}]), rule_path="p1.yaml", input="L1", modes=("bool", "first", False)),
    "first_list":   dict(rule=_r(["push"]), rule_path="p1.yaml", input="L1", modes=("list", "first", False)),
}
OP_NAMES = list(OPS)


def prepare_workdir(workdir):
    """Static inputs (listings, binary); rule and macro files are (re)written by each operation."""
    from mc.common import fmt_listing
    import subprocess
    os.makedirs(workdir, exist_ok=True)
    open(os.path.join(workdir, "L1.s"), "w").write(fmt_listing(L1))
    open(os.path.join(workdir, "L2.s"), "w").write(fmt_listing(L2))
    src = os.path.join(workdir, "bin.s")
    open(src, "w").write(BIN_SRC)
    subprocess.run(["as", "--64", src, "-o", os.path.join(workdir, "BIN.o")], check=True)


CFG_VALUES = {
    "f": {"absent": None, "true": True, "bad": "yes"},
    "r": {"absent": None, "A": {"min": "401000", "max": "401fff"}, "bad": {"min": "zz", "max": "401fff"}},
    "s": {"absent": None, "S1": [".text"], "bad": ".text"},
}


def cfg_rule(name):
    """'cfg:f1:f2:r:s' -> rule document whose config section realises the model step Load(f1,f2,r,s)"""
    _, f1, f2, r, s_ = name.split(":")
    conf = {}
    for key, dom, val in (("mnemonics-full-match", "f", f1), ("operands-full-match", "f", f2), ("valid_addr_range", "r", r), ("sections", "s", s_)):
        v = CFG_VALUES[dom][val]
        if v is not None:
            conf[key] = v
    return _r(["mov"], conf or None)


def config_core():
    """the real global configuration in the vocabulary of tla/JasmConfig.tla; ["unbound"] if the configuration object no
    longer has the structure this binding was written for (a refactoring, not a verdict)"""
    try:
        return _config_core()
    except Exception:  # noqa
        return ["unbound"]


def _config_core():
    from jasm.global_definitions import JASMConfig, PartialMatchingConfig, DisassStyle
    if JASMConfig._instance is None:
        return ["unset"] * 5
    g = JASMConfig.global_info
    if not isinstance(g, dict):
        return ["unbound"]

    def flag(k):
        return "unset" if k not in g else ("T" if g[k] is True else "F" if g[k] is False else f"?{g[k]!r}")
    st = g.get("assembly_style", "unset")
    st = "att" if st == DisassStyle.att else ("unset" if st == "unset" else f"?{st}")
    if "valid_addr_range" not in g:
        rg = "unset"
    elif g["valid_addr_range"] is None:
        rg = "None"
    else:
        v = g["valid_addr_range"]
        rg = "A" if (v.min.hex, v.max.hex) == (0x401000, 0x401fff) else f"?{v.min.hex:x}-{v.max.hex:x}"
    if "sections" not in g:
        sc = "unset"
    else:
        sc = "empty" if g["sections"] == [] else "S1" if g["sections"] == [".text"] else f"?{g['sections']!r}"
    return [flag(PartialMatchingConfig.MnemonicsFullMatch), flag(PartialMatchingConfig.OperandsFullMatch), st, rg, sc]


def run_op(workdir, name):
    """Execute one complete compile-and-match operation through the public API."""
    if name.startswith("cfg:"):
        OPS[name] = dict(rule=cfg_rule(name), rule_path="p1.yaml", input="L1")
    from jasm.global_definitions import InputFileType, MatchConfig, MatchingReturnMode, MatchingSearchMode
    from jasm.match import MasterOfPuppets
    op = OPS[name]
    rp = os.path.join(workdir, op["rule_path"])
    with open(rp, "w") as f:
        f.write(yaml.safe_dump(op["rule"], sort_keys=False))
    if op.get("symlink"):
        link = os.path.join(workdir, "lnk_" + op["rule_path"])
        if not os.path.islink(link):
            os.symlink(rp, link)
        rp = link
    macros = None
    if op.get("lib"):
        lp = os.path.join(workdir, op["lib"][0])
        with open(lp, "w") as f:
            f.write(yaml.safe_dump(op["lib"][1], sort_keys=False))
        macros = [lp]
    inp = {"L1": "L1.s", "L2": "L2.s", "BIN": "BIN.o", "MISSING": "nosuchfile.s"}[op["input"]]
    ret, mode, only = op.get("modes", ("list", "all", False))
    cfg = MatchConfig(
        pattern_pathstr=rp, input_file=os.path.join(workdir, inp),
        input_file_type=InputFileType.binary if op.get("binary") else InputFileType.assembly,
        return_only_address=only,
        return_mode=MatchingReturnMode.bool if ret == "bool" else MatchingReturnMode.matched_addrs_list,
        matching_mode=MatchingSearchMode.all_finds if mode == "all" else MatchingSearchMode.first_find,
        macros=macros)
    import signal

    class _Deadline(BaseException):
        pass

    def _alarm(signum, frame):
        raise _Deadline()
    signal.signal(signal.SIGALRM, _alarm)
    signal.setitimer(signal.ITIMER_REAL, OP_DEADLINE_S)      # an operation that never returns is an outcome, not a hung search
    try:
        mop = MasterOfPuppets(cfg)
        value = mop.perform_matching()
        value = list(value) if isinstance(value, list) else value     # a copy: a later call must not be able to rewrite it
        again = mop.perform_matching()          # repeating the operation gives the same result
        return ["ok", value, again == value]
    except BaseException as e:  # noqa
        if isinstance(e, (KeyboardInterrupt, SystemExit)):
            raise
        return ["raise", type(e).__name__, True]
    finally:
        signal.setitimer(signal.ITIMER_REAL, 0)


# ----------------------------------------------------------------------------- snapshot

def _dump(v, depth=0, seen=None):
    import enum
    seen = seen if seen is not None else set()
    if isinstance(v, (str, int, float, bool, type(None))):
        return v
    if isinstance(v, enum.Enum):
        return f"{type(v).__name__}.{v.name}"
    if id(v) in seen or depth > 6:
        return "<cycle>"
    seen = seen | {id(v)}
    if isinstance(v, (list, tuple)):
        return [_dump(x, depth + 1, seen) for x in v]
    if isinstance(v, (set, frozenset)):
        return sorted((json.dumps(_dump(x, depth + 1, seen), sort_keys=True, default=str) for x in v))
    if isinstance(v, dict):
        return sorted(([json.dumps(_dump(k, depth + 1, seen), sort_keys=True, default=str), _dump(x, depth + 1, seen)] for k, x in v.items()),
                      key=lambda kv: kv[0])
    if hasattr(v, "__dict__") and not callable(v):
        return {"__class__": type(v).__name__, "attrs": _dump({k: x for k, x in vars(v).items()}, depth + 1, seen)}
    return f"<{type(v).__name__}>"


def snapshot():
    """Canonical structural dump of every piece of process-global mutable state of the jasm package: module-level and
    class-level containers, singleton instances, sizes of function caches.  Never repr() of an object (addresses)."""
    import types
    out = {}
    for mname, mod in sorted(sys.modules.items()):
        if not (mname == "jasm" or mname.startswith("jasm.")) or mod is None:
            continue
        for name, val in sorted(vars(mod).items()):
            if name.startswith("__"):
                continue
            key = f"{mname}.{name}"
            if isinstance(val, (list, dict, set)) and getattr(val, "__module__", None) != "typing":
                out[key] = _dump(val)
            elif isinstance(val, (int, float, str, bool, type(None))) and not isinstance(val, type) and not name.isupper() and name != name.upper():
                out[key] = val          # lower-case module-level scalars (counters, flags); ALL_CAPS constants are skipped
            elif hasattr(val, "cache_info") and callable(val):
                out[key + "#cache"] = val.cache_info().currsize
            elif isinstance(val, type) and getattr(val, "__module__", None) == mname:
                for an, av in sorted(vars(val).items()):
                    if an.startswith("__"):
                        continue
                    f = av.__func__ if isinstance(av, (staticmethod, classmethod)) else av
                    if hasattr(f, "cache_info"):
                        out[f"{key}.{an}#cache"] = f.cache_info().currsize
                    elif isinstance(f, types.FunctionType) and f.__defaults__:
                        muts = [d for d in f.__defaults__ if isinstance(d, (list, dict, set))]
                        if muts:
                            out[f"{key}.{an}#defaults"] = _dump(muts)
                    if isinstance(av, (list, dict, set)):
                        out[f"{key}.{an}"] = _dump(av)
                    elif isinstance(av, (int, float, str, bool)) and not an.isupper() and type(val).__name__ != "EnumType" and an not in ("__module__", "__qualname__", "__doc__", "_value_", "_name_"):
                        out[f"{key}.{an}"] = av      # class-level scalars (counters such as a nesting depth)
                    elif an in ("_instance", "global_info") or (not callable(av) and not isinstance(av, (str, int, float, bool, type(None), property, staticmethod, classmethod, types.MemberDescriptorType, types.GetSetDescriptorType)) and hasattr(av, "__dict__") and not isinstance(av, type)):
                        out[f"{key}.{an}"] = _dump(av)
            elif isinstance(val, types.FunctionType) and getattr(val, "__module__", None) == mname and val.__defaults__:
                muts = [d for d in val.__defaults__ if isinstance(d, (list, dict, set))]
                if muts:
                    out[key + "#defaults"] = _dump(muts)
    return out


def snap_key(s):
    import hashlib
    return hashlib.sha1(json.dumps(s, sort_keys=True, default=str).encode()).hexdigest()[:12]


# ----------------------------------------------------------------------------- modes

def _import_pristine():
    import jasm.match  # noqa
    import jasm.main  # noqa  (argument parser etc.: import only)
    from jasm.global_definitions import JASMConfig
    assert JASMConfig._instance is None, "fork server is not pristine"


def exec_history(workdir, hist):
    outcomes, snaps = [], []
    CORES.clear()
    for name in hist:
        outcomes.append(run_op(workdir, name))
        snaps.append(snap_key(snapshot()))
        CORES.append(config_core())
    return outcomes, snaps


CORES = []


def serve(workdir):
    _import_pristine()
    for line in sys.stdin:
        line = line.strip()
        if not line:
            continue
        hist = json.loads(line)
        r, w = os.pipe()
        pid = os.fork()
        if pid == 0:
            os.close(r)
            try:
                outcomes, snaps = exec_history(workdir, hist)
                os.write(w, json.dumps({"outcomes": outcomes, "snapshots": snaps, "cores": CORES}, default=str).encode())
            except BaseException as e:  # noqa
                os.write(w, json.dumps({"error": repr(e)}).encode())
            os._exit(0)
        os.close(w)
        data = b""
        while True:
            chunk = os.read(r, 65536)
            if not chunk:
                break
            data += chunk
        os.close(r)
        os.waitpid(pid, 0)
        sys.stdout.write(data.decode() + "\n")
        sys.stdout.flush()


TREE_OPS = None      # continuation menu of the stateless explorer (None = every operation)


def tree(workdir, first, depth, out_fd, prefix=None):
    """In a pristine process: run `first`, then recursively every continuation up to `depth` operations in total.
    Every node writes one JSON line {"hist": [...], "outcome": [...], "snap": key} to out_fd."""
    prefix = (prefix or [])
    for name in ([first] if first else (TREE_OPS or OP_NAMES)):
        pid = os.fork()
        if pid == 0:
            try:
                outcome = run_op(workdir, name)
                hist = prefix + [name]
                os.write(out_fd, (json.dumps({"hist": hist, "outcome": outcome, "snap": snap_key(snapshot())}, default=str) + "\n").encode())
                if len(hist) < depth:
                    tree(workdir, None, depth, out_fd, hist)
            except BaseException as e:  # noqa
                os.write(out_fd, (json.dumps({"hist": prefix + [name], "error": repr(e)}) + "\n").encode())
            os._exit(0)
        os.waitpid(pid, 0)


def accumulate(workdir, op, counts, out_fd):
    """Histories op^k . probe for k in counts and every probe operation: state that only shows after MANY repetitions
    (counters, growing lists, caches filling up).  One child repeats `op`; at each checkpoint it forks one grandchild per probe."""
    pid = os.fork()
    if pid == 0:
        try:
            for k in range(1, max(counts) + 1):
                run_op(workdir, op)
                if k in counts:
                    for probe in OP_NAMES:
                        gp = os.fork()
                        if gp == 0:
                            try:
                                outcome = run_op(workdir, probe)
                                os.write(out_fd, (json.dumps({"hist": [op] * k + [probe], "k": k, "outcome": outcome, "snap": snap_key(snapshot())}, default=str) + "\n").encode())
                            except BaseException as e:  # noqa
                                os.write(out_fd, (json.dumps({"hist": [op] * k + [probe], "error": repr(e)}) + "\n").encode())
                            os._exit(0)
                        os.waitpid(gp, 0)
        finally:
            os._exit(0)
    os.waitpid(pid, 0)


def main():
    global TREE_OPS
    mode, workdir = sys.argv[1], sys.argv[2]
    if mode == "one":
        _import_pristine()
        print(json.dumps({"outcome": run_op(workdir, sys.argv[3]), "snap": snap_key(snapshot())}, default=str))
    elif mode == "hist":
        _import_pristine()
        outcomes, snaps = exec_history(workdir, json.loads(sys.argv[3]))
        print(json.dumps({"outcomes": outcomes, "snapshots": snaps, "cores": CORES}, default=str))
    elif mode == "serve":
        serve(workdir)
    elif mode == "tree":
        _import_pristine()
        if len(sys.argv) > 5:
            TREE_OPS = sys.argv[5].split(",")
        tree(workdir, sys.argv[3], int(sys.argv[4]), 1)
    elif mode == "accum":
        _import_pristine()
        accumulate(workdir, sys.argv[3], [int(x) for x in sys.argv[4].split(",")], 1)
    else:
        raise SystemExit("unknown mode")


if __name__ == "__main__":
    try:     # bounded memory: an operation that allocates without end raises MemoryError, which is an outcome
        import resource
        _lim = int(float(os.environ.get("VERIF_WORKER_MEM_GB", "3")) * (1 << 30))
        resource.setrlimit(resource.RLIMIT_AS, (_lim, _lim))
    except (ValueError, OSError):
        pass
    main()
