#!/venv/bin/python
"""setup_cmd: nothing to build (pure Python driving /repo's working tree); verify the tool-chain."""
import os
import shutil
import sys

sys.path.insert(0, "/repo/src")
import jasm  # noqa
import regex, yaml  # noqa

assert os.path.realpath(jasm.__file__).startswith("/repo/src"), jasm.__file__
for tool in ("objdump", "as"):
    assert shutil.which(tool), f"{tool} not on PATH"
for d in ("evidence", "replays"):
    os.makedirs(os.path.join(os.path.dirname(os.path.dirname(os.path.abspath(__file__))), d), exist_ok=True)
print("setup ok: jasm from", os.path.dirname(jasm.__file__))
