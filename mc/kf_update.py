#!/venv/bin/python
"""Maintenance tool (never run by a check): (re)compute the exact failing inputs of a listed open
finding on the current tree and store their keys in known_findings.json.

  mc/kf_update.py --id KF-ANY-PIPE --prop C07 [--family any] [--clause genuine,verdict]

The finding entry (id, what, witness) must already exist in known_findings.json; this tool only
refreshes entry['inputs'][prop] from a quick and a thorough run, restricted to the given families
and clauses, and reports every failing input it did NOT attribute (those stay VIOLATIONs)."""
import argparse
import json
import os
import subprocess
import sys
import tempfile

V = os.path.dirname(os.path.dirname(os.path.abspath(__file__)))
ap = argparse.ArgumentParser()
ap.add_argument("--id", required=True)
ap.add_argument("--prop", required=True)
ap.add_argument("--family", default="")
ap.add_argument("--clause", default="")
ap.add_argument("--tiers", default="quick,thorough")
a = ap.parse_args()
fams = [f for f in a.family.split(",") if f]
clauses = [c for c in a.clause.split(",") if c]
kf = json.load(open(f"{V}/known_findings.json"))
entry = [e for e in kf["open"] if e["id"] == a.id][0]
keys, other = set(), set()
for tier in a.tiers.split(","):
    with tempfile.NamedTemporaryFile(suffix=".json") as tf:
        with tempfile.TemporaryDirectory() as ed:   # do not touch the committed evidence / replays
            subprocess.run(["/venv/bin/python", f"{V}/mc/run.py", a.prop, "--tier", tier, "--dump-fail-keys", tf.name],
                           stdout=subprocess.DEVNULL, cwd=V,
                           env=dict(os.environ, VERIF_EVIDENCE_DIR=ed, VERIF_REPLAY_DIR=os.path.join(ed, "replays")))
        for k, clause, fam in json.load(open(tf.name)):
            if (not fams or any(fam.startswith(f) for f in fams)) and (not clauses or clause in clauses):
                keys.add(k)
            else:
                other.add((k, clause, fam))
entry.setdefault("inputs", {})[a.prop] = sorted(keys)
if a.prop not in entry.setdefault("properties", []):
    entry["properties"].append(a.prop)
json.dump(kf, open(f"{V}/known_findings.json", "w"), indent=1)
print(f"{a.id}: {len(keys)} failing inputs listed for {a.prop}; {len(other)} failing inputs NOT attributed")
for o in sorted(other)[:10]:
    print("  unattributed:", o)
