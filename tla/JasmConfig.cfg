SPECIFICATION Spec
INVARIANT OwnConfigOnly
