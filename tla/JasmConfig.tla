---------------------------- MODULE JasmConfig ----------------------------
(* Model of the process-global rule configuration of JASM (JASMConfig.global_info) under a sequence of
   rule compilations.  One step = loading the `config:` section of one rule:
     1. both full-match flags are validated together, then both are stored (absent = false);
     2. the assembly style is stored (always att here);
     3. valid_addr_range is parsed and stored (absent = None) - a malformed bound raises;
     4. sections is validated and stored (absent = empty list) - a non-list raises.
   A step that raises leaves the keys of the earlier stages updated and the later ones untouched.
   The variable `op` records the step taken (so that every transition of the dumped state graph carries its
   parameters); `res` its outcome.  Every (state, step) pair of this graph is replayed against the real code and
   the real global_info is compared with the model state (mc/tlc_conf.py, check C14). *)
EXTENDS Naturals

F1 == {"absent", "true", "bad"}       \* mnemonics-full-match:  absent | true | "yes" (wrong type)
F2 == {"absent", "true"}              \* operands-full-match
RG == {"absent", "A", "bad"}          \* valid_addr_range: absent | {min: 401000, max: 401fff} | {min: zz, ...}
SC == {"absent", "S1", "bad"}         \* sections: absent | [".text"] | ".text" (not a list)

VARIABLES mn, opf, style, rng, sec, op, res

vars == <<mn, opf, style, rng, sec, op, res>>

Init == /\ mn = "unset" /\ opf = "unset" /\ style = "unset" /\ rng = "unset" /\ sec = "unset"
        /\ op = <<"none", "none", "none", "none">> /\ res = "none"

Flag(f) == IF f = "true" THEN "T" ELSE "F"

Load(f1, f2, r, s) ==
  /\ op' = <<f1, f2, r, s>>
  /\ IF f1 = "bad"
     THEN /\ UNCHANGED <<mn, opf, style, rng, sec>>
          /\ res' = "raise"
     ELSE /\ mn' = Flag(f1)
          /\ opf' = Flag(f2)
          /\ style' = "att"
          /\ IF r = "bad"
             THEN /\ UNCHANGED <<rng, sec>>
                  /\ res' = "raise"
             ELSE /\ rng' = (IF r = "absent" THEN "None" ELSE r)
                  /\ IF s = "bad"
                     THEN /\ UNCHANGED sec
                          /\ res' = "raise"
                     ELSE /\ sec' = (IF s = "absent" THEN "empty" ELSE s)
                          /\ res' = "ok"

Next == \E f1 \in F1, f2 \in F2, r \in RG, s \in SC : Load(f1, f2, r, s)

Spec == Init /\ [][Next]_vars

(* The property C14 needs from the configuration: after a step that succeeded, the configuration in force is exactly
   the one the step's rule asked for - nothing of any earlier rule survives. *)
OwnConfigOnly ==
  res = "ok" => /\ mn = Flag(op[1]) /\ opf = Flag(op[2])
                /\ rng = (IF op[3] = "absent" THEN "None" ELSE op[3])
                /\ sec = (IF op[4] = "absent" THEN "empty" ELSE op[4])
=============================================================================
