#!/bin/sh
# No-alarm screen: behaviour-preserving refactorings of JASM (tools/benign/*.diff) must leave every check silent.
# For each patch: scratch worktree of /repo HEAD + patch, the repository's own tests, then every check (quick) with
# JASM_REPO pointing at the worktree; evidence and replays go to a scratch directory; everything is removed afterwards.
#   tools/benign_screen.sh [patch...]        (default: all of tools/benign/*.diff)
cd /verif
[ $# -eq 0 ] && set -- tools/benign/*.diff
rc=0
for patch in "$@"; do
  tag=$(basename "$patch" .diff)
  wt=$(mktemp -d /tmp/benign_XXXXXX); rmdir "$wt"
  git -C /repo worktree add --detach "$wt" HEAD -q || exit 2
  if ! git -C "$wt" apply "/verif/$patch"; then echo "$tag: patch does not apply"; rc=2; git -C /repo worktree remove --force "$wt"; continue; fi
  t=$(cd "$wt" && PYTHONPATH="$wt/src" /venv/bin/python -m pytest -q -p no:cacheprovider --timeout=900 2>&1 | tail -1)
  echo "$tag: repository tests: $t"
  for i in 01 02 03 04 05 06 07 08 09 10 11 12 13 14 15 16 17 18 19 20; do
    out=$(JASM_REPO="$wt" VERIF_EVIDENCE_DIR="$wt.ev" VERIF_REPLAY_DIR="$wt.rp" /venv/bin/python mc/run.py C$i --tier quick 2>&1); e=$?
    [ $e -ne 0 ] && { rc=1; echo "$out" | grep -E "^(VIOLATION|HARNESS)" | head -3; }
    echo "$tag C$i exit=$e"
  done
  git -C /repo worktree remove --force "$wt"; rm -rf "$wt.ev" "$wt.rp"
done
exit $rc
