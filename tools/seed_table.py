#!/venv/bin/python
"""Print the seeded-change detection table (markdown) from seeded/*/meta.json and notes.md."""
import json, os, re, glob
V = os.path.dirname(os.path.dirname(os.path.abspath(__file__)))
print("| seed | breaks | what it needs to manifest | tests 129/3 | demo with/without | caught by (quick) |")
print("|---|---|---|---|---|---|")
for d in sorted(glob.glob(f"{V}/seeded/C*")):
    mp = os.path.join(d, "meta.json")
    if not os.path.exists(mp):
        continue
    m = json.load(open(mp))
    det = [c for c, v in m.get("checks", {}).items() if v.get("exit") == 1]
    miss = [c for c, v in m.get("checks", {}).items() if v.get("exit") != 1]
    t = m.get("tests_with_change", {}).get("baseline_pass_kept")
    print(f"| {m['seed']} | {m['property']} | {m.get('needs', '')} | {'yes' if t else 'NO'} | {m.get('demo_exit_with_change')}/{m.get('demo_exit_without_change')} | "
          f"{', '.join(det) or '—'}{(' (not: ' + ', '.join(miss) + ')') if miss else ''} |")
