#!/bin/sh
# For each given seed: apply it in a scratch worktree, run the target check, replay the first violation against the
# changed tree (must still fail) and against /repo (must hold).
for s in "$@"; do
  prop=${s%%-*}
  wt=/tmp/rst_$s; ed=/tmp/rst_ev_$s
  git -C /repo worktree add --detach $wt HEAD >/dev/null 2>&1
  git -C $wt apply /verif/seeded/$s/patch.diff || { echo "$s: patch failed"; git -C /repo worktree remove --force $wt; continue; }
  mkdir -p $ed
  JASM_REPO=$wt VERIF_EVIDENCE_DIR=$ed VERIF_REPLAY_DIR=$ed/replays /venv/bin/python /verif/mc/run.py $prop --tier quick > $ed/out.txt 2>&1
  f=$(grep -m1 '^VIOLATION' $ed/out.txt | sed 's/.*replay=//')
  if [ -z "$f" ]; then echo "$s: no violation"; else
    JASM_REPO=$wt /venv/bin/python /verif/mc/replay.py $f > $ed/r1.txt 2>&1; e1=$?
    /venv/bin/python /verif/mc/replay.py $f > $ed/r0.txt 2>&1; e0=$?
    echo "$s: replay on changed tree exit=$e1 ($(head -c 90 $ed/r1.txt | tr '\n' ' ')) ; on /repo exit=$e0"
  fi
  git -C /repo worktree remove --force $wt; rm -rf $ed
done
