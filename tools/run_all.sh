#!/bin/sh
# run every check (default: quick) on /repo's working tree; prints one line per check; exit 1 if any is not clean
tier=${1:-quick}
cd /verif
rc=0
for i in 01 02 03 04 05 06 07 08 09 10 11 12 13 14 15 16 17 18 19 20; do
  out=$(/venv/bin/python mc/run.py C$i --tier $tier 2>&1); e=$?
  echo "$out" | grep -E "^(VIOLATION|HARNESS|NOTE)" | head -3
  echo "exit=$e $(echo "$out" | tail -1)"
  [ $e -ne 0 ] && rc=1
done
python3-vt mc/validate.py | tail -1
exit $rc
