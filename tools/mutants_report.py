#!/venv/bin/python
"""Summarise tools/mutants_results.jsonl: kill rate of the repository tests vs of the checks, and the survivors with an
automatic first classification (statement on a logging line, regex timeout handling, ...)."""
import collections
import json
import os
import sys

V = os.path.dirname(os.path.dirname(os.path.abspath(__file__)))
recs = [json.loads(l) for l in open(os.path.join(V, "tools", "mutants_results.jsonl")) if l.strip()]
c = collections.Counter(r["status"] if "killed_by" not in r else "killed-by-check" for r in recs)
print("mutants evaluated:", len(recs))
for k, v in c.most_common():
    print(f"  {k:24s} {v}")
surv_tests = [r for r in recs if r["status"] in ("survives-repo-tests", "SURVIVOR") or "killed_by" in r]
killed = [r for r in surv_tests if "killed_by" in r]
print(f"survive the repository's tests: {len(surv_tests)}; killed by a check: {len(killed)} ({100 * len(killed) // max(1, len(surv_tests))}%)")
print("killed by:", dict(collections.Counter(r["killed_by"] for r in killed)))


def src_line(r):
    try:
        return open(os.path.join("/repo", r["file"])).read().split("\n")[r["line"] - 1].strip()
    except Exception:
        return ""


def classify(r):
    line = src_line(r)
    if "logger." in line and "matched_observers" not in r["file"]:
        return "equivalent: logging statement"
    if "timeout" in line.lower() or "TimeoutError" in line:
        return "equivalent within bounds: regex timeout handling (60 s) is never reached"
    if "assert " in line:
        return "assertion message / internal assertion"
    return "TO TRIAGE"


print("\nsurvivors:")
for r in recs:
    if r["status"] == "SURVIVOR":
        print(f"  {r['id']} {r['file'].replace('src/jasm/', '')}:{r['line']} {r['desc']} | {r['old'][:40]!r} -> {r['new'][:40]!r} | {classify(r)} | {src_line(r)[:80]}")
