#!/venv/bin/python
"""False-alarm screen: every seeded change is also run against checks whose property its code site cannot influence
(macro-expander changes vs parser / tagging checks, parser changes vs macro checks, CLI changes vs everything in-process ...).
Those checks must stay silent (exit 0).  Results: tools/silence_screen.jsonl"""
import json
import os
import re
import subprocess
import sys
import tempfile

V = os.path.dirname(os.path.dirname(os.path.abspath(__file__)))
PY = "/venv/bin/python"
OUT = os.path.join(V, "tools", "silence_screen.jsonl")

UNRELATED = [   # (regex on touched files - ALL touched files must match, checks that cannot be affected)
    (r"macro_expander/|yaml2regex", ["C08", "C09", "C16", "C18", "C15"]),
    (r"asm_manual_parser|gnu_objdump_parser_manual", ["C13", "C19"]),
    (r"main\.py|parse_arguments|logging_config", ["C01", "C05", "C08", "C13", "C18"]),
    (r"shell_disassembler|gnu_objdump_disassembler", ["C01", "C05", "C09", "C13", "C19", "C18"]),
    (r"tree_generators/", ["C08", "C09", "C10", "C15", "C16", "C18", "C19"]),
    (r"matched_observers", ["C13", "C19"]),
    (r"consumer\.py", ["C13", "C19"]),
    (r"null_disassembler", ["C13", "C19", "C15"]),
]


def touched(patch):
    return sorted(set(re.findall(r"^\+\+\+ b/(\S+)", open(patch).read(), flags=re.M)))


def main():
    done = set()
    if os.path.exists(OUT):
        done = {json.loads(l)["seed"] for l in open(OUT) if l.strip()}
    seeds = sys.argv[1:] or sorted(d for d in os.listdir(os.path.join(V, "seeded")) if re.match(r"C\d\d-\d+$", d))
    for sid in seeds:
        if sid in done:
            continue
        patch = os.path.join(V, "seeded", sid, "patch.diff")
        files = touched(patch)
        checks = None
        for rx, cs in UNRELATED:
            if files and all(re.search(rx, f) for f in files):
                checks = [c for c in cs if c != sid.split("-")[0]]
                break
        rec = {"seed": sid, "files": files, "checks": {}}
        if checks:
            wt = tempfile.mkdtemp(prefix=f"sil_{sid}_", dir="/tmp")
            os.rmdir(wt)
            subprocess.run(["git", "-C", "/repo", "worktree", "add", "--detach", wt, "HEAD"], capture_output=True)
            ok = subprocess.run(["git", "-C", wt, "apply", patch], capture_output=True).returncode == 0
            if ok:
                for c in checks:
                    with tempfile.TemporaryDirectory() as ed:
                        env = dict(os.environ, JASM_REPO=wt, VERIF_EVIDENCE_DIR=ed, VERIF_REPLAY_DIR=os.path.join(ed, "r"))
                        r = subprocess.run([PY, os.path.join(V, "mc", "run.py"), c, "--tier", "quick"], cwd=V, env=env, capture_output=True, text=True)
                        first = [l.strip()[:200] for l in r.stdout.split("\n") if l.strip().startswith("clause=") or l.startswith("HARNESS")][:1]
                        rec["checks"][c] = {"exit": r.returncode, "first": first[0] if first else ""}
            subprocess.run(["git", "-C", "/repo", "worktree", "remove", "--force", wt], capture_output=True)
        with open(OUT, "a") as f:
            f.write(json.dumps(rec) + "\n")
        loud = {c: v for c, v in rec["checks"].items() if v["exit"] != 0}
        print(sid, files[:2], "silent" if not loud else f"ALARM {loud}", flush=True)


if __name__ == "__main__":
    main()
