#!/venv/bin/python
"""Systematic mutation analysis of the checks (complements the agent-written seeds).

Generates small syntactic mutants of /repo/src/jasm (AST-located: comparison / boolean operator swaps, negated
conditions, constant tweaks, regex-fragment tweaks in string constants, statement deletion, argument swaps), keeps those
under which the repository's own baseline tests still pass, and runs the checks mapped to the mutated file against each.
Everything happens in scratch worktrees (JASM_REPO); /repo is never modified.  Results: tools/mutants_results.jsonl.

  tools/mutants.py --list                          print the mutants (id, file, line, description)
  tools/mutants.py --run [--max-per-file N] [--jobs J] [--only-file substr]
"""
from __future__ import annotations

import argparse
import ast
import concurrent.futures
import hashlib
import json
import os
import shutil
import subprocess
import sys
import tempfile
import time

V = os.path.dirname(os.path.dirname(os.path.abspath(__file__)))
REPO = "/repo"
PY = "/venv/bin/python"
BASE = json.load(open("/root/.vp/BASELINE.json"))
RESULTS = os.path.join(V, "tools", "mutants_results.jsonl")

CHECKS_FOR = [   # first matching substring wins
    ("asm_manual_parser_w_regex", ["C08", "C09", "C10", "C16", "C01", "C06"]),
    ("gnu_objdump_parser_manual", ["C08", "C10", "C16", "C01"]),
    ("null_disassembler", ["C08", "C16", "C01", "C17"]),
    ("composable_producer", ["C08", "C01", "C15"]),
    ("implementations/observers", ["C08", "C16", "C18"]),
    ("gnu_objdump_disassembler", ["C15", "C17", "C14"]),
    ("shell_disassembler", ["C15", "C17"]),
    ("consumer", ["C07", "C11", "C12", "C10", "C08", "C20"]),
    ("matched_observers", ["C12", "C11", "C20", "C07"]),
    ("match.py", ["C12", "C18", "C15", "C14", "C17"]),
    ("global_definitions", ["C18", "C01", "C05", "C14", "C17", "C10"]),
    ("main.py", ["C20", "C17"]),
    ("parse_arguments", ["C20"]),
    ("logging_config", ["C20"]),
    ("yaml2regex", ["C13", "C19", "C17", "C14", "C01"]),
    ("macro_expander", ["C13", "C19", "C17"]),
    ("capture", ["C05", "C07", "C11", "C06"]),
    ("deref", ["C06", "C03", "C05"]),
    ("node_branch_root", ["C02", "C03", "C04", "C05", "C07"]),
    ("mnemonic_and_operand", ["C01", "C02", "C05", "C07"]),
    ("time_type_builder", ["C02", "C17"]),
    ("pattern_node_builder", ["C02", "C17", "C06", "C01"]),
    ("ast_builder", ["C03", "C04", "C05", "C06", "C17"]),
    ("special_register", ["C05"]),
    ("", ["C01", "C02", "C03"]),
]

REGEX_TWEAKS = [("[^,|]", "[^|]"), ("[^|]", "[^,|]"), (",?", ","), ("::", ":"), ("{0,1000}", "{0,10}"), ("(?:", "("), ("\\|", "|"), ("+", "*"), ("%?", "%"),
                ("(?:0x)?", "0x"), ("\\[", "["), ("^ *", "^"), ("\\t", " "), ("$", ""), ("{2}", "{1,2}")]


def src_files():
    out = []
    for d, _, fs in os.walk(os.path.join(REPO, "src", "jasm")):
        for f in sorted(fs):
            if f.endswith(".py") and f not in ("measure_performance.py",):
                out.append(os.path.join(d, f))
    return sorted(out)


def seg(src_lines, node):
    """(start_offset, end_offset) of a node in the flat source"""
    def off(line, col):
        return sum(len(l) for l in src_lines[: line - 1]) + len(src_lines[line - 1].encode()[:col].decode())
    return off(node.lineno, node.col_offset), off(node.end_lineno, node.end_col_offset)


def mutants_of(path):
    src = open(path, encoding="utf-8").read()
    lines = src.splitlines(keepends=True)
    try:
        tree = ast.parse(src)
    except SyntaxError:
        return []
    out = []

    def add(start, end, new, desc, lineno):
        if src[start:end] == new:
            return
        out.append({"file": os.path.relpath(path, REPO), "line": lineno, "desc": desc, "start": start, "end": end, "new": new,
                    "old": src[start:end][:60]})

    CMP = {ast.Eq: "!=", ast.NotEq: "==", ast.LtE: "<", ast.GtE: ">", ast.Lt: "<=", ast.Gt: ">=", ast.In: "not in", ast.NotIn: "in", ast.Is: "is not",
           ast.IsNot: "is"}
    docstrings = set()
    for node in ast.walk(tree):
        if isinstance(node, (ast.FunctionDef, ast.ClassDef, ast.Module, ast.AsyncFunctionDef)):
            b = getattr(node, "body", [])
            if b and isinstance(b[0], ast.Expr) and isinstance(getattr(b[0], "value", None), ast.Constant) and isinstance(b[0].value.value, str):
                docstrings.add(id(b[0].value))
    for node in ast.walk(tree):
        if isinstance(node, ast.Compare) and len(node.ops) == 1 and type(node.ops[0]) in CMP:
            ls, le = seg(lines, node.left)
            rs, re_ = seg(lines, node.comparators[0])
            add(le, rs, f" {CMP[type(node.ops[0])]} ", f"comparison {type(node.ops[0]).__name__} -> {CMP[type(node.ops[0])]}", node.lineno)
        elif isinstance(node, ast.BoolOp):
            a, b = node.values[0], node.values[1]
            _, ae = seg(lines, a)
            bs, _ = seg(lines, b)
            add(ae, bs, " or " if isinstance(node.op, ast.And) else " and ", "and <-> or", node.lineno)
        elif isinstance(node, ast.UnaryOp) and isinstance(node.op, ast.Not):
            s, e = seg(lines, node)
            os_, oe = seg(lines, node.operand)
            add(s, e, src[os_:oe], "drop 'not'", node.lineno)
        elif isinstance(node, (ast.If, ast.While)):
            s, e = seg(lines, node.test)
            add(s, e, f"not ({src[s:e]})", "negate condition", node.lineno)
        elif isinstance(node, ast.Constant) and id(node) not in docstrings:
            s, e = seg(lines, node)
            v = node.value
            if isinstance(v, bool):
                add(s, e, str(not v), "bool constant flipped", node.lineno)
            elif isinstance(v, int):
                add(s, e, str(v + 1), "int constant +1", node.lineno)
                if v > 0:
                    add(s, e, str(v - 1), "int constant -1", node.lineno)
            elif isinstance(v, str) and v and "\n" not in src[s:e]:
                lit = src[s:e]
                for a, b in REGEX_TWEAKS:
                    if a in lit and lit.count(a) <= 3:
                        add(s, e, lit.replace(a, b, 1), f"string fragment {a!r} -> {b!r}", node.lineno)
        elif isinstance(node, ast.Return) and node.value is not None and not (isinstance(node.value, ast.Constant) and node.value.value is None):
            s, e = seg(lines, node.value)
            add(s, e, "None", "return None", node.lineno)
        elif isinstance(node, ast.Call) and len(node.args) >= 2 and not node.keywords and not any(isinstance(a, ast.Starred) for a in node.args):
            s0, e0 = seg(lines, node.args[0])
            s1, e1 = seg(lines, node.args[1])
            add(s0, e1, src[s1:e1] + src[e0:s1] + src[s0:e0], "swap first two arguments", node.lineno)
        elif isinstance(node, ast.Call) and isinstance(node.func, ast.Attribute) and node.func.attr == "get" and len(node.args) == 2:
            s1, e1 = seg(lines, node.args[1])
            add(s1, e1, "None", ".get default -> None", node.lineno)
        elif isinstance(node, (ast.Expr, ast.Assign, ast.AugAssign, ast.Raise)) and isinstance(getattr(node, "value", None) or getattr(node, "exc", None), (ast.Call, ast.BinOp, ast.JoinedStr, ast.Name, ast.Attribute, ast.Subscript, ast.Constant, type(None))):
            if isinstance(node, ast.Expr) and id(node.value) in docstrings:
                continue
            s, e = seg(lines, node)
            if "\n" not in src[s:e]:
                add(s, e, "pass", f"delete statement ({type(node).__name__})", node.lineno)
    for m in out:
        m["id"] = hashlib.sha1(f"{m['file']}:{m['start']}:{m['end']}:{m['new']}".encode()).hexdigest()[:10]
    return out


def all_mutants(max_per_file, only=None):
    ms = []
    for p in src_files():
        if only and only not in p:
            continue
        fm = mutants_of(p)
        if max_per_file and len(fm) > max_per_file:
            step = len(fm) / max_per_file
            fm = [fm[int(i * step)] for i in range(max_per_file)]
        ms += fm
    return ms


def checks_for(file):
    for sub, cs in CHECKS_FOR:
        if sub in file:
            return cs
    return ["C01"]


def sh(cmd, **kw):
    return subprocess.run(cmd, capture_output=True, text=True, **kw)


def run_tests(wt):
    env = dict(os.environ, PYTHONPATH=os.path.join(wt, "src"))
    with tempfile.NamedTemporaryFile(suffix=".xml") as tf:
        try:
            sh([PY, "-m", "pytest", "-q", "-x", "-p", "no:cacheprovider", "--timeout=120", "--continue-on-collection-errors",
                "--deselect", "tests/test_matching.py::test_all_patterns[moonbounce_malware_full_111826_lines_binarly.s]",
                "--deselect", "tests/test_parsing.py::test_correct_number_of_lines_with_regex[moonbounce_malware_full_111826_lines.s]",
                "--deselect", "tests/test_parsing.py::test_parsing_number_of_lines[moonbounce_malware_full_111826_lines.s]",
                f"--junitxml={tf.name}"], cwd=wt, env=env, timeout=600)
        except subprocess.TimeoutExpired:
            return False
        import xml.etree.ElementTree as ET
        passed = set()
        try:
            for tc in ET.parse(tf.name).getroot().iter("testcase"):
                if not any(c.tag in ("failure", "error", "skipped") for c in tc):
                    passed.add(f"{tc.get('classname')}::{tc.get('name')}")
        except Exception:
            return False
    return set(BASE["stable_pass"]) <= passed


ALL_CHECKS = None   # set by --all-checks: run every check (used to triage survivors)


def evaluate(m, nproc):
    wt = tempfile.mkdtemp(prefix=f"mut_{m['id']}_", dir="/tmp")
    os.rmdir(wt)
    rec = dict(m)
    t0 = time.time()
    try:
        sh(["git", "-C", REPO, "worktree", "add", "--detach", wt, "HEAD"])
        p = os.path.join(wt, m["file"])
        src = open(p, encoding="utf-8").read()
        new_src = src[: m["start"]] + m["new"] + src[m["end"]:]
        try:
            compile(new_src, p, "exec")
        except SyntaxError:
            rec["status"] = "syntax-error"
            return rec
        open(p, "w", encoding="utf-8").write(new_src)
        # must still import
        r = sh([PY, "-c", "import jasm.main, jasm.match"], env=dict(os.environ, PYTHONPATH=os.path.join(wt, "src")))
        if r.returncode != 0:
            rec["status"] = "import-error"
            return rec
        if not run_tests(wt):
            rec["status"] = "killed-by-repo-tests"
            return rec
        rec["status"] = "survives-repo-tests"
        rec["checks"] = {}
        for c in (ALL_CHECKS or checks_for(m["file"])):
            with tempfile.TemporaryDirectory() as ed:
                env = dict(os.environ, JASM_REPO=wt, VERIF_EVIDENCE_DIR=ed, VERIF_REPLAY_DIR=os.path.join(ed, "replays"))
                try:
                    r = sh([PY, os.path.join(V, "mc", "run.py"), c, "--tier", "quick", "--nproc", str(nproc)], cwd=V, env=env, timeout=1500)
                    code = r.returncode
                    first = [l.strip()[:160] for l in r.stdout.split("\n") if l.strip().startswith("clause=") or l.startswith("HARNESS")][:1]
                except subprocess.TimeoutExpired:
                    code, first = 124, ["timeout"]
            rec["checks"][c] = {"exit": code, "first": first[0] if first else ""}
            if code == 1:
                rec["killed_by"] = c
                break
        if "killed_by" not in rec:
            rec["status"] = "SURVIVOR"
        return rec
    finally:
        rec["wall_s"] = round(time.time() - t0, 1)
        sh(["git", "-C", REPO, "worktree", "remove", "--force", wt])
        shutil.rmtree(wt, ignore_errors=True)


def main():
    ap = argparse.ArgumentParser()
    ap.add_argument("--list", action="store_true")
    ap.add_argument("--run", action="store_true")
    ap.add_argument("--max-per-file", type=int, default=20)
    ap.add_argument("--jobs", type=int, default=4)
    ap.add_argument("--only-file", default=None)
    ap.add_argument("--ids", default=None)
    ap.add_argument("--all-checks", action="store_true")
    ap.add_argument("--checks", default=None, help="comma separated check ids to run instead of the file->check map")
    ap.add_argument("--out", default=None)
    a = ap.parse_args()
    global ALL_CHECKS, RESULTS
    if a.all_checks:
        ALL_CHECKS = [f"C{i:02d}" for i in (20, 17, 12, 14, 7, 11, 1, 2, 3, 4, 5, 6, 8, 9, 10, 13, 15, 16, 18, 19)]
    if a.checks:
        ALL_CHECKS = a.checks.split(",")
    if a.out:
        RESULTS = a.out
    ms = all_mutants(a.max_per_file, a.only_file)
    if a.ids:
        want = set(a.ids.split(","))
        ms = [m for m in all_mutants(0, a.only_file) if m["id"] in want]
    if a.list or not a.run:
        for m in ms:
            print(m["id"], m["file"].replace("src/jasm/", ""), m["line"], m["desc"], "|", m["old"], "->", m["new"][:50])
        print(len(ms), "mutants")
        return
    done = set()
    for rf in {RESULTS, os.path.join(V, "tools", "mutants_results.jsonl")}:
        if not os.path.exists(rf) or a.ids:
            continue
        for l in open(rf):
            try:
                done.add(json.loads(l)["id"])
            except Exception:
                pass
    todo = [m for m in ms if m["id"] not in done]
    print(len(todo), "mutants to evaluate", flush=True)
    nproc = max(2, 16 // a.jobs)
    with concurrent.futures.ThreadPoolExecutor(a.jobs) as ex:
        for rec in ex.map(lambda m: evaluate(m, nproc), todo):
            with open(RESULTS, "a") as f:
                f.write(json.dumps({k: v for k, v in rec.items() if k not in ("start", "end")}) + "\n")
            print(rec["id"], rec["file"].replace("src/jasm/", ""), rec["line"], rec["desc"], "=>", rec["status"], rec.get("killed_by", ""), flush=True)
    sh(["git", "-C", REPO, "worktree", "prune"])


if __name__ == "__main__":
    main()
