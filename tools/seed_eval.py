#!/venv/bin/python
"""Evaluate seeded property-breaking changes (/verif/seeded/<id>/patch.diff) in a scratch worktree of /repo HEAD:
baseline tests still pass, the seed's own demo fails with / passes without the change, and which of our checks alarm.

  tools/seed_eval.py [--checks target|all|C01,C02] [--tier quick] seed-id...

Nothing is applied to /repo itself; the worktree (and its build output) is removed afterwards.
"""
import argparse
import json
import os
import re
import shutil
import subprocess
import sys
import tempfile
import time

V = os.path.dirname(os.path.dirname(os.path.abspath(__file__)))
PY = "/venv/bin/python"
BASE = json.load(open("/root/.vp/BASELINE.json"))
ALL = [f"C{i:02d}" for i in range(1, 21)]


def sh(cmd, **kw):
    return subprocess.run(cmd, capture_output=True, text=True, **kw)


def run_tests(wt):
    env = dict(os.environ, PYTHONPATH=os.path.join(wt, "src"))
    with tempfile.NamedTemporaryFile(suffix=".xml") as tf:
        r = sh([PY, "-m", "pytest", "-q", "-p", "no:cacheprovider", "--timeout=900", "--continue-on-collection-errors",
                f"--junitxml={tf.name}"], cwd=wt, env=env)
        import xml.etree.ElementTree as ET
        passed = set()
        try:
            for tc in ET.parse(tf.name).getroot().iter("testcase"):
                if not any(c.tag in ("failure", "error", "skipped") for c in tc):
                    passed.add(f"{tc.get('classname')}::{tc.get('name')}")
        except Exception:
            pass
    want = set(BASE["stable_pass"])
    return {"baseline_pass_kept": want <= passed, "missing": sorted(want - passed)[:5], "summary": r.stdout.strip().split("\n")[-1]}


def main():
    ap = argparse.ArgumentParser()
    ap.add_argument("seeds", nargs="*")
    ap.add_argument("--checks", default="target")
    ap.add_argument("--tier", default="quick")
    ap.add_argument("--keep-meta", action="store_true")
    a = ap.parse_args()
    seeds = a.seeds or sorted(os.listdir(os.path.join(V, "seeded")))
    for sid in seeds:
        sd = os.path.join(V, "seeded", sid)
        if not os.path.exists(os.path.join(sd, "patch.diff")):
            continue
        prop = sid.split("-")[0]
        wt = tempfile.mkdtemp(prefix=f"seedwt_{sid}_", dir="/tmp")
        os.rmdir(wt)
        meta = {"seed": sid, "property": prop, "evaluated_at_repo_head": sh(["git", "-C", "/repo", "rev-parse", "--short", "HEAD"]).stdout.strip()}
        t0 = time.time()
        try:
            sh(["git", "-C", "/repo", "worktree", "add", "--detach", wt, "HEAD"])
            r = sh(["git", "-C", wt, "apply", os.path.join(sd, "patch.diff")])
            if r.returncode != 0:
                r = sh(["git", "-C", wt, "apply", "--3way", os.path.join(sd, "patch.diff")])
            meta["patch_applies"] = r.returncode == 0
            if r.returncode != 0:
                meta["apply_error"] = r.stderr[-300:]
                print(sid, "PATCH DOES NOT APPLY to current HEAD:", r.stderr.strip().split("\n")[-1])
            else:
                meta["tests_with_change"] = run_tests(wt)
                demo = os.path.join(sd, "demo.py")
                with tempfile.TemporaryDirectory() as td:
                    d1 = sh([PY, demo], env=dict(os.environ, PYTHONPATH=os.path.join(wt, "src")), cwd=td)
                    d0 = sh([PY, demo], env=dict(os.environ, PYTHONPATH="/repo/src"), cwd=td)
                meta["demo_exit_with_change"] = d1.returncode
                meta["demo_exit_without_change"] = d0.returncode
                checks = [prop] if a.checks == "target" else (ALL if a.checks == "all" else a.checks.split(","))
                meta.setdefault("checks", {})
                for c in checks:
                    with tempfile.TemporaryDirectory() as ed:
                        env = dict(os.environ, JASM_REPO=wt, VERIF_EVIDENCE_DIR=ed, VERIF_REPLAY_DIR=os.path.join(ed, "replays"))
                        t1 = time.time()
                        r = sh([PY, os.path.join(V, "mc", "run.py"), c, "--tier", a.tier], cwd=V, env=env)
                        viol = [l for l in r.stdout.split("\n") if l.startswith("VIOLATION")]
                        first = [l for l in r.stdout.split("\n") if l.strip().startswith("clause=")][:1]
                        meta["checks"][c] = {"exit": r.returncode, "violations": len(viol), "first": (first[0].strip()[:200] if first else ""),
                                             "tier": a.tier, "wall_s": round(time.time() - t1, 1),
                                             "harness_error": [l for l in r.stdout.split("\n") if l.startswith("HARNESS-ERROR")][:1]}
                det = [c for c, v in meta["checks"].items() if v["exit"] == 1]
                print(sid, "tests_ok=%s demo(with/without)=%s/%s detected_by=%s" % (
                    meta["tests_with_change"]["baseline_pass_kept"], d1.returncode, d0.returncode, det or "NONE"),
                    {c: v["exit"] for c, v in meta["checks"].items()})
        finally:
            sh(["git", "-C", "/repo", "worktree", "remove", "--force", wt])
            shutil.rmtree(wt, ignore_errors=True)
            sh(["git", "-C", "/repo", "worktree", "prune"])
        meta["eval_wall_s"] = round(time.time() - t0, 1)
        mp = os.path.join(sd, "meta.json")
        old = json.load(open(mp)) if os.path.exists(mp) else {}
        if "checks" in old and "checks" in meta:
            old_checks = old["checks"]
            old_checks.update(meta["checks"])
            meta["checks"] = old_checks
        old.update(meta)
        json.dump(old, open(mp, "w"), indent=1)


if __name__ == "__main__":
    main()
