"""C12  Boolean, list, first/all and address-only results agree with each other."""
from __future__ import annotations

import importlib
import os

from mc import e1, refmodel as rm
from mc.common import HarnessError, REPO, fmt_listing, make_rule_doc

ID = "C12"
LEVEL = "exploration"
ENGINE = "E1"
TECHNIQUE = "bounded exhaustive enumeration of rules x listings x all 8 mode combinations, each a separate compile-and-match on the real code, relational oracle between the 8 results"
RULE = ("rules: a stratified subfamily covering every operator, repetition form, capture kind, $deref, the shipped @any "
        "macro and valid_addr_range (every k-th rule of the C01-C05 families plus fixed @any / valid_addr rules) x EVERY "
        "listing of length 0..3 over a 5-instruction alphabet, with distinct addresses with addresses that restart at 0 (several code sections) with 12-/16-digit, zero-padded, all-letter and mixed-width (1..4 digit) addresses; plus listings of 4200/8300 (thorough ..65600) instructions whose only occurrence touches a block boundary (bool, first and all must agree) ; corpus family: 8 rules (sequences, $not, $deref with capture, instruction and register-family captures) on every listing under tests/assembly (200 B .. 4 MB) x the 2x2x2 combinations of return mode (bool/list), search "
        "mode (first/all) and address-only flag, each combination run as its own MasterOfPuppets construction and call. "
        "Oracle (relational, real code vs real code): bool <=> list non-empty in every mode; first-list = all-list[:1]; "
        "address-only[k] = text before the first '::' of full[k]; verdict identical across the 8 runs; a second "
        "perform_matching() on the same object returns the same value, and so do 8 fresh matchers built from ONE MatchConfig object whose mode fields are changed between them. Non-trivial = some mode reports a match.")
ASSUMPTIONS = ["patterns that can match the empty sequence are kept (their reported address is the empty string in both forms)"]
LEVEL_TEXT = ("Every rule of the stratified subfamily x every listing up to the bound x all 8 mode combinations as separate "
              "operations; relational oracle. Exhaustive within bounds.")
LEVEL_NOTE = "No reference model needed: the 8 runs of the real code are compared with each other."

ALPHA = [("mov", ["%rax", "%rbx"]), ("mov", ["%rbx", "%rax"]), ("push", ["%rax"]), ("ret", []), ("call", ["401030 <f>"])]
ANY_MACROS = os.path.join(REPO, "tests/macros/jasm_macros.yaml")
MODES = [(r, m, o) for r in ("bool", "list") for m in ("first", "all") for o in (False, True)]
# the same 8 combinations in an order where neighbours differ in exactly one field
GRAY = [("bool", "first", False), ("bool", "all", False), ("list", "all", False), ("list", "all", True), ("bool", "all", True),
        ("bool", "first", True), ("list", "first", True), ("list", "first", False)]


def bounds(tier):
    return {"L_listing_len": 3, "stride": 90 if tier == "quick" else 16}


EXTRA = [
    (["@any"], [ANY_MACROS], None), ([{"mov": ["@any", "@any"]}], [ANY_MACROS], None), ([{"@any": {"times": 2}}], [ANY_MACROS], None),
    ([{"call": ["valid_addr"]}], None, {"valid_addr_range": {"min": "401000", "max": "401fff"}}),
    ([{"call": ["valid_addr"]}], None, {"valid_addr_range": {"min": "0x402000", "max": "0x402fff"}}),
    (["call", "ret"], None, {"valid_addr_range": {"min": "401000", "max": "401fff"}}),
    ([{"mov": ["&x", "&y"]}, {"mov": ["&y", "&x"]}], None, None), (["&i", "&i"], None, None),
    (["MOV"], None, None), ([{"mov": ["%RAX"]}], None, None), ([{"Mov": ["rax"]}, "push"], None, None),     # letter case: every mode must treat it alike
    ([{"mov": ["rax"]}], None, {"mnemonics-full-match": True}), ([{"mov": ["%rax"]}], None, {"operands-full-match": True}),
]


def all_rules(tier):
    stride = bounds(tier)["stride"]
    rules = []
    for name in ("C01", "C02", "C03", "C04", "C05"):
        mod = importlib.import_module(f"checks.{name}")
        rs = mod.all_rules(tier)
        for i in range(0, len(rs), stride):
            rc = rs[i]
            pat = rc.pattern if hasattr(rc, "pattern") else rc[1]
            rules.append((pat, None, None))
    return rules + EXTRA


def shards(tier):
    return e1.std_shards(tier, 64, 256)


def build_lsets(h, tier):
    # 'dup': addresses restart (objdump -d of an object file with several code sections prints every section from 0)
    return {"c12": e1.ListingSet(h, ALPHA, 3), "a64": e1.ListingSet(h, [ALPHA[0], ALPHA[2], ALPHA[4]], 2, minlen=1, addrs=["ffffffff81000004", "7ffff7dd1008"]),
            "dup": e1.ListingSet(h, [ALPHA[0], ALPHA[2], ALPHA[4]], 3, minlen=2, addrs=["0", "4", "0", "4"]),
            # zero-padded addresses, addresses of different widths (1..5 digits, not in string order), all-letter addresses
            "zpad": e1.ListingSet(h, [ALPHA[0], ALPHA[2], ALPHA[4]], 2, minlen=1, addrs=["00401000", "0000000000401004"]),
            "width": e1.ListingSet(h, [ALPHA[0], ALPHA[2], ALPHA[4]], 3, minlen=2, addrs=["8", "10", "ff8"]),
            "alpha": e1.ListingSet(h, [ALPHA[0], ALPHA[2], ALPHA[4]], 2, minlen=1, addrs=["abcdef", "deadbeef"])}


def run_case(h, doc, macros, path, shared=True):
    out = {}
    for r, m, o in MODES:
        mop = h.mop(doc, macros=macros)
        v = h.match(mop, path, ret=r, mode=m, only_addr=o)
        v2 = h.match(mop, path, ret=r, mode=m, only_addr=o)
        out[(r, m, o)] = (v, v2)
    # the same 8 questions asked through ONE MatchConfig object handed to 8 fresh matchers (the caller's configuration
    # object must not be altered by a question): recorded as the "second call" of a mode if it deviates
    gd = h.gd
    cfg = gd.MatchConfig(pattern_pathstr=h.rule_file(doc), input_file=path, input_file_type=gd.InputFileType.assembly, macros=macros)
    last = {}
    for r, m, o in (GRAY if shared else ()):
        # the caller assigns only the field it wants to change; whatever else the object holds is what the caller set earlier
        for field, val in (("return_mode", gd.MatchingReturnMode.bool if r == "bool" else gd.MatchingReturnMode.matched_addrs_list),
                           ("matching_mode", gd.MatchingSearchMode.all_finds if m == "all" else gd.MatchingSearchMode.first_find),
                           ("return_only_address", o)):
            if last.get(field, None) != val or field not in last:
                setattr(cfg, field, val)
                last[field] = val
        v3 = h.MasterOfPuppets(cfg).perform_matching()
        v3 = list(v3) if isinstance(v3, list) else v3
        if v3 != out[(r, m, o)][0]:
            out[(r, m, o)] = (out[(r, m, o)][0], ("shared MatchConfig", v3))
    return out


def check_modes(out):
    probs = []
    for k, (v, v2) in out.items():
        if v != v2:
            probs.append(("repeat", f"{k}: second call {v2!r}", f"first call {v!r}"))
    val = {k: v for k, (v, _) in out.items()}
    verdicts = {k: (bool(v)) for k, v in val.items()}
    if len(set(verdicts.values())) != 1:
        probs.append(("verdict-modes", "same verdict in all 8 modes", {str(k): v for k, v in verdicts.items()}))
    for k, v in val.items():
        if k[0] == "bool" and not isinstance(v, bool):
            probs.append(("types", "bool", repr(v)))
        if k[0] == "list" and not isinstance(v, list):
            probs.append(("types", "list", repr(v)))
    for o in (False, True):
        if val[("list", "first", o)] != val[("list", "all", o)][:1]:
            probs.append(("first-prefix", val[("list", "all", o)][:1], val[("list", "first", o)]))
    for m in ("first", "all"):
        full, addr = val[("list", m, False)], val[("list", m, True)]
        if [t.split("::")[0] if "::" in t else t for t in full] != addr:
            probs.append(("addr-prefix", [t.split("::")[0] for t in full], addr))
    return probs


CORPUS_RULES = [["call", "mov"], [{"mov": ["rsp"]}], ["push", "push"], ["ret"], [{"lea": [{"$deref": {"main_reg": "rip", "constant_offset": "&k"}}]}],
                [{"$not": ["mov"]}, "call"], ["&i", "&i"], [{"push": ["&genreg-1.64"]}, {"pop": ["&genreg-1.64"]}]]


def run_corpus(shard, tier, h, res, known):
    """the 8 mode combinations on the real listings of the repository (every address width, register and form they contain)"""
    import glob
    files = [p for p in sorted(glob.glob(os.path.join(REPO, "tests", "assembly", "*.s"))) if 200 < os.path.getsize(p) < (4 << 20)]
    jobs = [(r, p) for r in CORPUS_RULES for p in files]
    for ji in range(shard["lo"], len(jobs), shard["n"]):
        rule, path = jobs[ji]
        doc = make_rule_doc(rule)
        res.evaluations += 8
        case = {"family": "corpus", "rule": doc, "macros": None, "file": path.replace(REPO, "<repo>"), "size": 50}
        try:
            out = run_case(h, doc, None, path, shared=False)
        except Exception as e:
            res.fail({**case, "clause": "raises", "expected": "8 results", "observed": repr(e)}, known)
            continue
        if any(bool(v) for v, _ in out.values()):
            res.nontrivial += 1
        for clause, exp, obs in check_modes(out):
            res.fail({**case, "clause": clause, "expected": str(exp)[:300], "observed": str(obs)[:300]}, known)


def run_shard(shard, tier, h, res, known):
    run_corpus(shard, tier, h, res, known)
    rules = all_rules(tier)
    lsets = e1.get_lsets(h, tier, build_lsets)
    ls = list(lsets["c12"]) + list(lsets["dup"]) + list(lsets["a64"]) + list(lsets["zpad"]) + list(lsets["width"]) + list(lsets["alpha"])
    LONGLIST = [(["mov", "push"], [("mov", ["%rax", "%rbx"]), ("push", ["%rax"])]),
                (["mov", {"push": {"times": {"min": 1, "max": 3}}}, "ret"], [("mov", ["%rax", "%rbx"]), ("push", ["%rax"]), ("push", ["%rax"]), ("ret", [])]),
                (["mov", {"$not": [{"$and": ["nop", "nop"]}]}, "ret"], [("mov", ["%rax", "%rbx"]), ("nop", []), ("ret", [])]),
                # greedy repetition at the end of the rule: the reported text must be the same in both modes
                (["mov", {"push": {"times": {"min": 1, "max": 3}}}], [("mov", ["%rax", "%rbx"]), ("push", ["%rax"]), ("push", ["%rax"]), ("push", ["%rax"])]),
                # a window the rule must NOT match: the $not argument spans two instructions and matches here
                (["mov", {"$not": [{"$and": ["push", "ret"]}]}], [("mov", ["%rax", "%rbx"]), ("push", ["%rax"]), ("ret", [])], False)]
    e1.run_long_family(h, res, known, shard, LONGLIST, [4200, 8300] if tier == "quick" else [4200, 8300, 16500, 32800, 65600], prop=ID)
    h.decoy_every = 4          # 8 compilations per case: a decoy before every 4th keeps the cost in bounds
    for ri in range(shard["lo"], len(rules), shard["n"]):
        pat, macros, config = rules[ri]
        doc = make_rule_doc(pat, config)
        for li, (idx, path, norm, att) in enumerate(ls):
            res.evaluations += 8
            try:
                out = run_case(h, doc, macros, path, shared=(li % 4 == 1))     # the shared-configuration pass on every 4th listing
            except Exception as e:
                res.fail({"clause": "raises", "rule": doc, "macros": macros, "listing": [[a, m, list(o)] for a, m, o in att],
                          "expected": "8 results", "observed": repr(e), "size": len(att)}, known)
                continue
            if any(bool(v) for v, _ in out.values()):
                res.nontrivial += 1
            for clause, exp, obs in check_modes(out):
                res.fail({"clause": clause, "rule": doc, "macros": macros, "listing": [[a, m, list(o)] for a, m, o in att],
                          "expected": exp, "observed": obs, "size": len(att) * 10 + len(str(pat))}, known)
        if len(res.samples) < 1:
            res.samples.append({"rule": doc, "macros": macros, "listing": [[a, m, list(o)] for a, m, o in ls[-1][3]],
                                "modes": [list(m) for m in MODES]})


def controls(h):
    doc = make_rule_doc(["mov"])
    p = h.listing_file(fmt_listing([("10", "mov", ["%rax", "%rbx"]), ("13", "mov", ["%rbx", "%rax"])]))
    out = run_case(h, doc, None, p)
    if check_modes(out) and False:
        raise HarnessError("unreachable")
    exp = {("bool", "first", False): True, ("list", "all", True): ["10", "13"], ("list", "first", True): ["10"]}
    # not a harness error if the implementation deviates; only sanity of the oracle itself:
    fake = {k: (v, v) for k, v in {**{m: False for m in MODES}, **{}}.items()}
    fake = {m: ((False if m[0] == "bool" else []), (False if m[0] == "bool" else [])) for m in MODES}
    if check_modes(fake):
        raise HarnessError("mode oracle rejects a consistent all-negative result")
    fake[("bool", "first", False)] = (True, True)
    if not check_modes(fake):
        raise HarnessError("mode oracle accepts an inconsistent result")


def replay(case, h):
    if case.get("family") == "longlisting":
        return e1.replay_long_case(case, h)
    if case.get("family") == "corpus":
        try:
            out = run_case(h, case["rule"], None, case["file"].replace("<repo>", REPO))
        except Exception as e:
            return True, repr(e)
        probs = check_modes(out)
        return bool(probs), str(probs)[:300]
    att = [(a, m, list(o)) for a, m, o in case["listing"]]
    p = h.listing_file(fmt_listing(att))
    try:
        out = run_case(h, case["rule"], case.get("macros"), p)
    except Exception as e:
        return True, repr(e)
    probs = check_modes(out)
    return bool(probs), str(probs)
