"""C17  Failures are loud: an unscanned input is never reported as 'not found'."""
from __future__ import annotations

import copy
import os
import shutil
import stat
import subprocess
import sys

import yaml

from mc import e1
from mc.common import HarnessError, REPO, fmt_listing, make_rule_doc

ID = "C17"
LEVEL = "fault_enumeration"
ENGINE = "E4"
TECHNIQUE = "exhaustive enumeration of single faults x base cases x {assembly, binary} x {API bool/list, CLI}, each fault injected into files/environment of an otherwise valid found-case (after a decoy run at the same paths); oracle: error / non-zero exit, never a negative verdict"
RULE = ("base cases whose fault-free verdict is 'found' (assembly: plain rule, rule with valid_addr_range, rule with macros; "
        "rule whose macros all come from the macro file; binary: plain rule, rule with sections) x EVERY single fault of the menu: rule file missing / a directory / not "
        "UTF-8 / empty; 6 kinds of malformed YAML; top level not a mapping; pattern missing / null / scalar / empty list / "
        "mapping; config scalar / list / null; each config entry wrongly typed (mnemonics-full-match, operands-full-match, "
        "sections x3, valid_addr_range x6, its min/max); macros not a list x3, macro without name / pattern; empty $and / "
        "$or / $and_any_order (list and null); $not with 0 and 2 arguments; $deref without main_reg (x2); times negative "
        "(int, min, max) and inverted in both spellings; undefined macro in 8 positions with and without other "
        "definitions; macro file missing / malformed / without 'macros'; input file missing / a directory / not UTF-8 / "
        "not an object file / truncated object; objdump absent from PATH / exiting 1 with stderr / exiting 1 after "
        "partial output / killed by a signal. Each fault is injected after a decoy operation (a valid, non-matching rule "
        "or input at the very same paths) in the same process, so stale state cannot mask it. Executed through the API in "
        "bool/first and list/all mode, for input faults also through one MasterOfPuppets object used first on a valid input and then pointed at the faulty one, and through the CLI. Oracle: the operation raises (API) / exits non-zero (CLI); "
        "returning False / [] / logging 'Pattern not found' is the violation for every fault; reporting 'found' is a "
        "violation too for the faults the statement lists by name (files, disassembler, malformed YAML, pattern / config "
        "entries, empty group, $not arity, $deref without main_reg, repetition bounds, undefined macro) and counted as "
        "tolerated for the rest of the menu (LENIENT). Non-trivial = fault cases (the fault-free controls are "
        "counted separately).")
ASSUMPTIONS = ["faults are single and injected into files / environment, never into JASM's code",
               "running as root: 'unreadable' is modelled by a directory and by non-UTF-8 bytes"]
LEVEL_TEXT = ("Every listed fault x every base case x both input kinds x API and CLI; the outcome class of each run is checked. "
              "Exhaustive over the stated fault menu.")
LEVEL_NOTE = "Trusted: the fault injectors in this module; the CLI's exit status and log lines as observed from a subprocess."

# Faults the statement does not list by name: for these only the silent negative is a violation ('found' = JASM read the
# document in some tolerant way and did scan).  For every other fault of the menu the statement demands an error outright.
LENIENT = ("macro_nopattern", "macro_noname", "macro_badname", "macros_", "pattern_mapping", "config_null", "opfull_null", "times_str",
           "lib_no_macros_key", "lib_macros_null", "top_", "input_not_utf8", "input_empty", "input_truncated")

LISTING = [("401000", "mov", ["%rax", "%rbx"]), ("401003", "push", ["%rax"]), ("401004", "call", ["401030"]), ("401009", "ret", [])]
DECOY_LISTING = [("401000", "nop", []), ("401001", "ret", [])]
BIN_SRC = ".text\n mov %rax,%rbx\n push %rax\n call f\nf:\n ret\n"
DECOY_BIN_SRC = ".text\n nop\n ret\n"
LIB = {"macros": [{"name": "@lib", "pattern": "push"}]}

BASES = {
    "asm_plain": dict(rule=make_rule_doc([{"mov": ["rax"]}, "push"]), binary=False, lib=False),
    "asm_range": dict(rule=make_rule_doc([{"call": ["valid_addr"]}], {"valid_addr_range": {"min": "401000", "max": "401fff"}}), binary=False, lib=False),
    "asm_macro": dict(rule=make_rule_doc([{"mov": ["@r"]}, "@lib"], None, [{"name": "@r", "pattern": "rax"}]), binary=False, lib=True),
    "asm_libonly": dict(rule=make_rule_doc([{"mov": ["rax"]}, "@lib"]), binary=False, lib=True),     # every definition comes from the macro file
    "bin_plain": dict(rule=make_rule_doc(["mov", "push"]), binary=True, lib=False),
    "bin_sections": dict(rule=make_rule_doc(["mov", "push"], {"sections": [".text"]}), binary=True, lib=False),
}
DECOY_RULE = make_rule_doc(["zzzznomatch"])


def _set(doc, path, value):
    d = copy.deepcopy(doc)
    cur = d
    for k in path[:-1]:
        cur = cur.setdefault(k, {})
    if value is _DEL:
        cur.pop(path[-1], None)
    else:
        cur[path[-1]] = value
    return d


_DEL = object()


def rule_faults():
    """(name, fn(doc)-> text|bytes|('missing',)|('dir',))"""
    F = []
    F.append(("rule_missing", lambda d: ("missing",)))
    F.append(("rule_is_dir", lambda d: ("dir",)))
    F.append(("rule_not_utf8", lambda d: b"pattern:\n  - mov\xff\xfe\n"))
    F.append(("rule_empty", lambda d: ""))
    for i, bad in enumerate(["pattern: [mov", "pattern:\n\t- mov\n", "pattern:\n - mov\n   - push: [\n", "{", "pattern: - : -\n  x", "pattern: !!python/object:os.system x"]):
        F.append((f"yaml_malformed{i}", lambda d, bad=bad: bad))
    F.append(("top_list", lambda d: "- mov\n- push\n"))
    F.append(("top_scalar", lambda d: "mov\n"))
    F.append(("pattern_missing", lambda d: _set(d, ["pattern"], _DEL)))
    F.append(("pattern_null", lambda d: _set(d, ["pattern"], None)))
    F.append(("pattern_scalar", lambda d: _set(d, ["pattern"], "mov")))
    F.append(("pattern_empty", lambda d: _set(d, ["pattern"], [])))
    F.append(("pattern_mapping", lambda d: _set(d, ["pattern"], {"mov": ["rax"]})))
    F.append(("config_scalar", lambda d: _set(d, ["config"], 5)))
    F.append(("config_list", lambda d: _set(d, ["config"], ["mnemonics-full-match"])))
    F.append(("config_null", lambda d: _set(d, ["config"], None)))
    F.append(("mnfull_str", lambda d: _set(d, ["config", "mnemonics-full-match"], "yes")))
    F.append(("opfull_int", lambda d: _set(d, ["config", "operands-full-match"], 1)))
    F.append(("opfull_null", lambda d: _set(d, ["config", "operands-full-match"], None)))
    F.append(("sections_str", lambda d: _set(d, ["config", "sections"], ".text")))
    F.append(("sections_ints", lambda d: _set(d, ["config", "sections"], [1, 2])))
    F.append(("sections_map", lambda d: _set(d, ["config", "sections"], {"a": 1})))
    F.append(("range_str", lambda d: _set(d, ["config", "valid_addr_range"], "401000-401fff")))
    F.append(("range_list", lambda d: _set(d, ["config", "valid_addr_range"], ["401000", "401fff"])))
    F.append(("range_min_only", lambda d: _set(d, ["config", "valid_addr_range"], {"min": "401000"})))
    F.append(("range_bad_hex", lambda d: _set(d, ["config", "valid_addr_range"], {"min": "zz", "max": "401fff"})))
    F.append(("range_int_bounds", lambda d: _set(d, ["config", "valid_addr_range"], {"min": 401000, "max": 401999})))
    F.append(("range_null_max", lambda d: _set(d, ["config", "valid_addr_range"], {"min": "401000", "max": None})))
    F.append(("macros_str", lambda d: _set(d, ["macros"], "@r")))
    F.append(("macros_map", lambda d: _set(d, ["macros"], {"name": "@r", "pattern": "rax"})))
    F.append(("macros_int", lambda d: _set(d, ["macros"], 7)))
    F.append(("macro_noname", lambda d: _set(d, ["macros"], [{"pattern": "rax"}])))
    F.append(("macro_nopattern", lambda d: _set(d, ["macros"], [{"name": "@r"}])))
    F.append(("macro_badname", lambda d: _set(d, ["macros"], [{"name": "r", "pattern": "rax"}])))

    def with_item(item):
        return lambda d: _set(d, ["pattern"], [item] + copy.deepcopy(d["pattern"]))

    def replace_first(item):
        return lambda d: _set(d, ["pattern"], [item] + copy.deepcopy(d["pattern"])[1:])
    for op in ("$and", "$or", "$and_any_order"):
        F.append((f"empty_{op}", with_item({op: []})))
        F.append((f"null_{op}", with_item({op: None})))
    F.append(("not_0", with_item({"$not": []})))
    F.append(("not_2", with_item({"$not": ["nop", "ret"]})))
    F.append(("not_null", with_item({"$not": None})))
    # the same structural faults in every position a group can occupy: nested in each instruction-level operator, and as
    # an operand (directly, with a valid sibling operand, inside each operand-level operator)
    inst_faults = {"empty_and": {"$and": []}, "empty_or": {"$or": []}, "empty_any": {"$and_any_order": []}, "null_or": {"$or": None},
                   "not_0": {"$not": []}, "not_2": {"$not": ["nop", "ret"]}, "not_3": {"$not": ["nop", "ret", "mov"]}}
    inst_ctx = {"in_and": lambda x: {"$and": ["nop", x]}, "in_or": lambda x: {"$or": [x, "nop"]}, "in_any": lambda x: {"$and_any_order": ["nop", x]},
                "in_not": lambda x: {"$not": [x]}, "in_or_times": lambda x: {"$or": ["nop", x], "times": 2}, "in_and_in_or": lambda x: {"$or": [{"$and": [x, "nop"]}, "ret"]}}
    for fn, fv in inst_faults.items():
        for cn, cv in inst_ctx.items():
            F.append((f"{fn}_{cn}", with_item(cv(copy.deepcopy(fv)))))
    op_faults = {"empty_and": {"$and": []}, "empty_or": {"$or": []}, "empty_any": {"$and_any_order": []}, "null_or": {"$or": None},
                 "not_0": {"$not": []}, "not_2": {"$not": ["rax", "rbx"]}, "not_null": {"$not": None},
                 "deref_no_main": {"$deref": {"constant_offset": "0x8"}}, "deref_empty": {"$deref": {}}}
    op_ctx = {"operand": lambda x: {"mov": [x]}, "operand_2nd": lambda x: {"mov": ["rax", x]}, "operand_times": lambda x: {"mov": [x], "times": 2},
              "op_in_or": lambda x: {"mov": [{"$or": [x, "rax"]}]}, "op_in_and": lambda x: {"mov": [{"$and": ["rax", x]}]},
              "op_in_any": lambda x: {"mov": [{"$and_any_order": [x, "rax"]}]}, "op_in_not": lambda x: {"mov": [{"$not": [x]}]},
              "op_in_inst_or": lambda x: {"$or": [{"mov": [x]}, "nop"]}}
    for fn, fv in op_faults.items():
        for cn, cv in op_ctx.items():
            if fn.startswith("not") and cn == "op_in_not" and fn != "not_2":
                pass
            F.append((f"op_{fn}_{cn}", with_item(cv(copy.deepcopy(fv)))))
    F.append(("deref_no_main", with_item({"mov": [{"$deref": {"constant_offset": "0x8"}}]})))
    F.append(("deref_empty", with_item({"mov": [{"$deref": {}}]})))
    for t in (-1, {"min": -1, "max": 2}, {"min": 0, "max": -2}, {"min": 3, "max": 1}, -1000, {"min": 5000, "max": 2000}, {"min": 1001, "max": 1000},
              {"min": 100000, "max": 99999}, {"min": -100000, "max": 5}):
        F.append((f"times_{t}_inside", with_item({"nop": {"times": t}})))
        F.append((f"times_{t}_sibling", with_item({"$or": ["nop", "ret"], "times": t})))
    F.append(("times_str", with_item({"nop": {"times": "two"}})))
    undefined_positions = {
        "item": "@undef", "operand": {"mov": ["@undef"]}, "key_times": {"@undef": {"times": 1}}, "key_ops": {"@undef": ["rax"]},
        "sub": "mo@undef", "deref": {"mov": [{"$deref": {"main_reg": "@undef"}}]}, "in_or": {"$or": ["@undef", "mov"]},
        "key_none": {"@undef": None},
    }
    # the undefined name in other spellings (digit first, symbol-like, DSL words)
    for sp in ("@2_nops", "@64bit_reg", "@got_load", "@plt", "@times", "@X.y-z"):
        for pn, item in (("item", sp), ("operand", {"mov": [sp]}), ("key_times", {sp: {"times": 1}})):
            F.append((f"undef_macro_{pn}_withdefs_sp{sp}", lambda d, item=item: _set(_set(d, ["pattern"], [item] + copy.deepcopy(d["pattern"])), ["macros"],
                                                                                  (d.get("macros") or []) + [{"name": "@zz", "pattern": "ret"}])))
    for pn, item in undefined_positions.items():
        F.append((f"undef_macro_{pn}", with_item(item)))
        F.append((f"undef_macro_{pn}_withdefs", lambda d, item=item: _set(_set(d, ["pattern"], [item] + copy.deepcopy(d["pattern"])), ["macros"],
                                                                         (d.get("macros") or []) + [{"name": "@zz", "pattern": "ret"}])))
    return F


def lib_faults():
    return [("lib_missing", ("missing",)), ("lib_malformed", "macros: [\n"), ("lib_no_macros_key", "other: 1\n"), ("lib_empty_list", "macros: []\n"),
            ("lib_macros_null", "macros:\n"), ("lib_without_needed", yaml.safe_dump({"macros": [{"name": "@other", "pattern": "push"}]}))]


def input_faults(binary):
    F = [("input_missing", ("missing",)), ("input_is_dir", ("dir",))]
    if binary:
        F += [("input_not_object", b"this is not an object file\n"), ("input_truncated", ("truncate",)), ("input_empty", b"")]
    else:
        F += [("input_not_utf8", b"  401000:\t48 89 c3\tmov \xff\xfe\n")]
    return F


ENV_FAULTS = ["objdump_absent", "objdump_exit1", "objdump_partial_exit1", "objdump_killed", "objdump_exit2_silent"]


def all_cases():
    cases = []
    for bn, b in BASES.items():
        for fname, fn in rule_faults():
            cases.append((bn, "rule", fname))
        if b["lib"]:
            for fname, _ in lib_faults():
                cases.append((bn, "lib", fname))
        for fname, _ in input_faults(b["binary"]):
            cases.append((bn, "input", fname))
        if b["binary"]:
            for fname in ENV_FAULTS:
                cases.append((bn, "env", fname))
        cases.append((bn, "control", "none"))
    return cases


def bounds(tier):
    return {"bases": len(BASES), "cases": len(all_cases())}


def shards(tier):
    return e1.std_shards(tier, 32, 32)


def _write(path, content):
    """content: str | bytes | ('missing',) | ('dir',) | ('truncate',)"""
    if os.path.isdir(path):
        shutil.rmtree(path)
    if isinstance(content, tuple):
        if content[0] == "missing":
            if os.path.exists(path):
                os.unlink(path)
        elif content[0] == "dir":
            if os.path.exists(path):
                os.unlink(path)
            os.makedirs(path)
        elif content[0] == "truncate":
            data = open(path, "rb").read()
            open(path, "wb").write(data[: max(20, len(data) // 3)])
        return
    with open(path, "wb" if isinstance(content, bytes) else "w") as f:
        f.write(content)


def make_shim(d, kind):
    os.makedirs(d, exist_ok=True)
    p = os.path.join(d, "objdump")
    body = {
        "objdump_exit1": "echo 'objdump: file format not recognized' >&2\nexit 1\n",
        "objdump_partial_exit1": "printf '\\nx.o:     file format elf64-x86-64\\n\\n\\nDisassembly of section .text:\\n\\n0000000000000000 <f>:\\n   0:\\t90                   \\tnop\\n'\necho 'objdump: read error' >&2\nexit 1\n",
        "objdump_killed": "kill -9 $$\n",
        "objdump_exit2_silent": "exit 2\n",
    }[kind]
    with open(p, "w") as f:
        f.write("#!/bin/sh\n" + body)
    os.chmod(p, os.stat(p).st_mode | stat.S_IEXEC)
    return d


def build_bin(h, src, out):
    sp = h.write("c17src.s", src)
    r = subprocess.run(["as", "--64", sp, "-o", out], capture_output=True, text=True)
    if r.returncode != 0:
        raise HarnessError("as failed: " + r.stderr[:200])


def api_run(h, rp, ip, binary, libs, ret, mode):
    gd = h.gd
    cfg = gd.MatchConfig(pattern_pathstr=rp, input_file=ip,
                         input_file_type=gd.InputFileType.binary if binary else gd.InputFileType.assembly,
                         return_mode=gd.MatchingReturnMode.bool if ret == "bool" else gd.MatchingReturnMode.matched_addrs_list,
                         matching_mode=gd.MatchingSearchMode.all_finds if mode == "all" else gd.MatchingSearchMode.first_find,
                         macros=libs)
    try:
        v = h.MasterOfPuppets(cfg).perform_matching()
        return ("found" if v else "NOTFOUND"), repr(v)
    except BaseException as e:  # noqa
        if isinstance(e, (KeyboardInterrupt,)):
            raise
        return "error", f"{type(e).__name__}: {str(e)[:120]}"


def api_reuse(h, rp, first_input, second_input, binary, libs):
    gd = h.gd
    cfg = gd.MatchConfig(pattern_pathstr=rp, input_file=first_input,
                         input_file_type=gd.InputFileType.binary if binary else gd.InputFileType.assembly,
                         return_mode=gd.MatchingReturnMode.bool, matching_mode=gd.MatchingSearchMode.first_find, macros=libs)
    try:
        mop = h.MasterOfPuppets(cfg)
        first = mop.perform_matching()
    except BaseException as e:  # noqa
        if isinstance(e, KeyboardInterrupt):
            raise
        return "error", f"first use raised {type(e).__name__}"     # not the subject here, and not a silent negative
    if first:
        return "found", "decoy input matched"
    mop.match_config.input_file = second_input
    try:
        v = mop.perform_matching()
        return ("found" if v else "NOTFOUND"), repr(v)
    except BaseException as e:  # noqa
        if isinstance(e, KeyboardInterrupt):
            raise
        return "error", f"{type(e).__name__}: {str(e)[:120]}"


def cli_run(h, rp, ip, binary, libs, env_path=None):
    cwd = h.path("clicwd")
    os.makedirs(cwd, exist_ok=True)
    env = dict(os.environ)
    env["PYTHONPATH"] = os.path.join(REPO, "src")
    if env_path is not None:
        env["PATH"] = env_path
    cmd = [sys.executable, "-m", "jasm.main", "-p", rp, "-b" if binary else "-s", ip]
    if libs:
        cmd += ["--macros"] + libs
    r = subprocess.run(cmd, capture_output=True, text=True, cwd=cwd, env=env)
    out = r.stdout + r.stderr
    if r.returncode != 0:
        return "error", f"exit {r.returncode}"
    if "RESULT: Pattern found" in out:
        return "found", "exit 0, Pattern found"
    if "RESULT: Pattern not found" in out:
        return "NOTFOUND", "exit 0, Pattern not found"
    return "NOTFOUND", f"exit 0 without a result line: {out[-200:]!r}"


def run_case(h, bn, kind, fname):
    """returns dict mode -> (class, detail)"""
    b = BASES[bn]
    d = h.path("c17")
    shutil.rmtree(d, ignore_errors=True)
    os.makedirs(d)
    rp, ip, lp = os.path.join(d, "rule.yaml"), os.path.join(d, "input.o" if b["binary"] else "input.s"), os.path.join(d, "lib.yaml")
    lp2 = os.path.join(d, "lib_of_decoy.yaml")
    libs = [lp] if b["lib"] else None
    results = {}
    old_path = os.environ["PATH"]

    def put_valid(decoy_rule=False, decoy_input=False):
        _write(rp, yaml.safe_dump(DECOY_RULE if decoy_rule else b["rule"], sort_keys=False))
        if b["lib"]:
            _write(lp, yaml.safe_dump(LIB, sort_keys=False))
            # the decoy operation is given ANOTHER macro file that defines the same names with other bodies
            _write(lp2, yaml.safe_dump({"macros": [{"name": "@lib", "pattern": "zzzzlib"}, {"name": "@r", "pattern": "zzzzr"},
                                                   {"name": "@undef", "pattern": "zzzzundef"}]}, sort_keys=False))
        if b["binary"]:
            if os.path.isdir(ip):
                shutil.rmtree(ip)
            build_bin(h, DECOY_BIN_SRC if decoy_input else BIN_SRC, ip)
        else:
            _write(ip, fmt_listing(DECOY_LISTING if decoy_input else LISTING))

    def inject():
        env_path = None
        if kind == "rule":
            fn = dict(rule_faults())[fname]
            c = fn(copy.deepcopy(b["rule"]))
            _write(rp, c if isinstance(c, (str, bytes, tuple)) else yaml.safe_dump(c, sort_keys=False))
        elif kind == "lib":
            _write(lp, dict(lib_faults())[fname])
        elif kind == "input":
            _write(ip, dict(input_faults(b["binary"]))[fname])
        elif kind == "env":
            if fname == "objdump_absent":
                nd = os.path.join(d, "emptybin")
                os.makedirs(nd, exist_ok=True)
                env_path = nd
            else:
                env_path = make_shim(os.path.join(d, "shim_" + fname), fname) + os.pathsep + old_path
        return env_path

    for ret, mode in (("bool", "first"), ("list", "all")):
        # decoy at the very same paths first (valid, scanned, not found), then the real files + the fault
        put_valid(decoy_rule=(kind in ("rule", "lib", "control")), decoy_input=(kind in ("input", "env")))
        dec = api_run(h, rp, ip, b["binary"], [lp2] if b["lib"] else None, ret, mode)
        if dec[0] != "NOTFOUND":
            results.setdefault("_decoy_unexpected", dec)   # judged by the fault run that follows, not here
        put_valid()
        env_path = inject()
        if env_path is not None:
            os.environ["PATH"] = env_path
        try:
            results[f"api_{ret}_{mode}"] = api_run(h, rp, ip, b["binary"], libs, ret, mode)
        finally:
            os.environ["PATH"] = old_path
    if kind == "input":
        # one object used twice: first on a valid input at ANOTHER path (scanned, not found), then pointed at the faulty input
        ip2 = ip + ".other" + (".o" if b["binary"] else ".s")
        if b["binary"]:
            build_bin(h, DECOY_BIN_SRC, ip2)
        else:
            _write(ip2, fmt_listing(DECOY_LISTING))
        put_valid()
        inject()
        results["api_reuse"] = api_reuse(h, rp, ip2, ip, b["binary"], libs)
    put_valid()
    env_path = inject()
    results["cli"] = cli_run(h, rp, ip, b["binary"], libs, env_path)
    return results


def run_shard(shard, tier, h, res, known):
    cases = all_cases()
    for ci in range(shard["lo"], len(cases), shard["n"]):
        bn, kind, fname = cases[ci]
        results = run_case(h, bn, kind, fname)
        if results.pop("_decoy_unexpected", None):
            res.count("decoy_unexpected")
        for mode, (cls, detail) in results.items():
            res.evaluations += 1
            if kind == "control":
                res.count("controls")
                if cls != "found":
                    # the premise 'fault-free verdict is found' does not hold here although it held in controls()
                    # (fresh paths, no decoy): state carried over from the decoy.  Not C17's subject (C14's); recorded.
                    res.count("control_not_found_after_decoy")
                continue
            res.nontrivial += 1
            strict = cls == "found" and not fname.startswith(LENIENT)
            res.count({"error": "loud", "found": "accepted_found" if strict else "tolerated_found", "NOTFOUND": "silent_negative"}[cls])
            if strict:
                res.fail({"clause": "fault-accepted", "family": f"{kind}:{fname}", "base": bn, "fault": fname, "mode": mode,
                          "expected": "an error (exception / non-zero exit): the statement lists this fault", "observed": detail, "size": len(fname)}, known)
            if cls == "NOTFOUND":
                res.fail({"clause": "silent-negative", "family": f"{kind}:{fname}", "base": bn, "fault": fname, "mode": mode,
                          "expected": "an error (exception / non-zero exit)", "observed": detail, "size": len(fname)}, known)
        if len(res.samples) < 2:
            res.samples.append({"base": bn, "fault_kind": kind, "fault": fname, "outcomes": {m: list(v) for m, v in results.items()}})


def controls(h):
    if len(all_cases()) < 300:
        raise HarnessError("fault menu unexpectedly small")
    # premise: every base case is 'found' when run fault-free on fresh paths in this fresh harness (API and CLI)
    for bn, b in BASES.items():
        d = h.path("c17ctl_" + bn)
        os.makedirs(d, exist_ok=True)
        rp, ip, lp = os.path.join(d, "rule.yaml"), os.path.join(d, "input.o" if b["binary"] else "input.s"), os.path.join(d, "lib.yaml")
        _write(rp, yaml.safe_dump(b["rule"], sort_keys=False))
        if b["lib"]:
            _write(lp, yaml.safe_dump(LIB, sort_keys=False))
        if b["binary"]:
            build_bin(h, BIN_SRC, ip)
        else:
            _write(ip, fmt_listing(LISTING))
        libs = [lp] if b["lib"] else None
        for got in (api_run(h, rp, ip, b["binary"], libs, "bool", "first"), api_run(h, rp, ip, b["binary"], libs, "list", "all"),
                    cli_run(h, rp, ip, b["binary"], libs)):
            if got[0] != "found":
                raise HarnessError(f"fault-free base case {bn} is not 'found': {got}")


def replay(case, h):
    kind = case["family"].split(":")[0]
    results = run_case(h, case["base"], kind, case["fault"])
    results.pop("_decoy_unexpected", None)
    cls, detail = results[case["mode"]]
    bad = cls == "NOTFOUND" or (case.get("clause") == "fault-accepted" and cls == "found")
    return bad, f"{case['mode']}: {cls} {detail}"
