"""C07  Matches are instruction-aligned and report genuine addresses."""
from __future__ import annotations

import os

from mc import e1, refmodel as rm
from mc.common import HarnessError, REPO

ID = "C07"
LEVEL = "exploration"
ENGINE = "E1"
TECHNIQUE = "bounded exhaustive enumeration of rules (every operator leading) x listings x both search modes on the real code; every reported match decoded against the record offset table and the reference match relation"
RULE = ("rules: the C02 (repetition) and C04 ($not) rule families (quick: every third rule; thorough: all), the C05 (capture) family (quick: every second rule), the depth-1 C03 operator trees, "
        "and an @any family using the shipped tests/macros/jasm_macros.yaml (@any as mnemonic, as every operand position "
        "including one past the last operand, repeated, inside $deref) (every 5th $not rule also on listings with 16-digit addresses, every 7th on listings with zero-padded addresses; the C01 single-item rules under substring and full-match flags on listings with an address spelling a mnemonic) x EVERY listing of each family's bounded listing set "
        "x all-matches and first-match mode x full-text and address-only results. Also: listings of 32800/65600 (thorough ..131200) instructions with the only occurrence at every block-boundary position, and single matches covering 150..2000 instructions (full text must be the whole run). Oracle per reported match: starts at a "
        "record start offset and ends at a record end offset of the stream; the covered instruction span is in the "
        "reference matcher's relation (so no element matched across an operand, field or instruction boundary); the "
        "address-only result equals the address of the first covered instruction and occurs in the input. Non-trivial = "
        "reference finds the rule or its first item matches somewhere.")
ASSUMPTIONS = ["addresses are lower-case hexadecimal (property scope)"]
LEVEL_TEXT = ("All rules of the listed families x all listings of their bounded sets, both modes; every reported match is "
              "checked for record alignment, genuineness w.r.t. the reference matcher and address. Exhaustive within bounds.")
LEVEL_NOTE = "Trusted: mc/refmodel.py; record offset table computed from the decoded instruction list."

W = ("aligned", "genuine", "addr")
ANY_MACROS_REL = "<repo>/tests/macros/jasm_macros.yaml"      # recorded in cases (independent of where the tree lives)
ANY_MACROS = os.path.join(REPO, "tests/macros/jasm_macros.yaml")
ALPHA_ANY = [("mov", ["%rax", "%rbx"]), ("push", ["%rax"]), ("ret", []), ("mov", ["0x8(%rax)", "%rbx"]),
             ("imul", ["$0x10", "%rax", "%rbx"])]


def bounds(tier):
    return {"L_any": 3}


def any_rules():
    A = rm.ANY  # the macro body; rules are written with the macro name and expanded by the real expander
    pats = [["@any"], ["@any", "ret"], ["ret", "@any"], [{"@any": {"times": 2}}], [{"@any": {"times": {"min": 1, "max": 2}}}, "ret"],
            [{"mov": ["@any"]}], [{"mov": ["@any", "@any"]}], [{"mov": ["@any", "@any", "@any"]}], [{"push": ["@any"]}],
            [{"push": ["@any", "@any"]}], [{"ret": ["@any"]}], [{"imul": ["@any", "@any", "@any"]}],
            [{"imul": ["@any", "@any", "@any", "@any"]}], [{"mov": ["rax", "@any"]}], [{"mov": ["@any", "rbx"]}],
            [{"push": ["rax", "@any"]}], [{"push": ["@any", "@any"]}, "mov"],
            [{"mov": [{"$deref": {"main_reg": "@any"}}]}], [{"mov": [{"$deref": {"main_reg": "@any", "constant_offset": "@any"}}]}],
            [{"mov": [{"$deref": {"main_reg": "rax", "constant_offset": "@any"}}, "@any"]}],
            [{"$not": ["@any"]}], [{"$or": ["@any", "ret"]}, "ret"], [{"mov": [{"$not": ["@any"]}]}], [{"ret": [{"$not": ["@any"]}]}]]
    return pats


def _sub(p, name, body):
    """expand a string macro by hand (for the reference matcher only)"""
    if isinstance(p, str):
        return body if p == name else p
    if isinstance(p, list):
        return [_sub(x, name, body) for x in p]
    if isinstance(p, dict):
        return {(_sub(k, name, body) if isinstance(k, str) else k): _sub(v, name, body) for k, v in p.items()}
    return p


SOURCES = ("C02", "C03", "C04", "C05")


def _mods():
    import importlib
    return {m: importlib.import_module(f"checks.{m}") for m in SOURCES}


def all_rules(tier):
    rules = []
    for name, mod in _mods().items():
        for k, rc in enumerate(mod.all_rules(tier)):
            if tier == "quick" and ((name in ("C02", "C04") and k % 3) or (name == "C05" and k % 2)):
                continue    # quick: every third / second rule of the three largest families (explored in full by their own checks)
            if name == "C03" and not (rc.family.startswith("I1") or rc.family.startswith("O/only") or rc.family.startswith("D/")):
                continue
            rules.append(e1.RuleCase(f"{name}:{rc.family}", rc.pattern, f"{name}:{rc.lset}", cfgs=rc.cfgs[:1], want=W))
    import importlib
    c04 = _mods()["C04"]
    # single items with operands (the C01 family) under substring and full-match mnemonics, on the C01 listings whose
    # addresses include one that spells a mnemonic ("add")
    c01 = importlib.import_module("checks.C01")
    for r in list(c01.f1_rules(1))[::1]:
        rules.append(e1.RuleCase("C01:F1", r, "c01main", cfgs=((False, False), (True, False), (True, True)), want=W))
    for rc in c04.instr_rules(tier)[::7]:
        rules.append(e1.RuleCase("padded:" + rc.family, rc.pattern, "padded", want=W))
    # 64-bit addresses (16 hex digits, kernel style) and 1-digit addresses side by side
    for rc in c04.instr_rules(tier)[::5]:
        rules.append(e1.RuleCase("addr64:" + rc.family, rc.pattern, "addr64", want=W))
    return rules


def shards(tier):
    return e1.std_shards(tier, 64, 256)


def build_lsets(h, tier):
    ls = {}
    for name, mod in _mods().items():
        for k, v in mod.build_lsets(h, tier).items():
            ls[f"{name}:{k}"] = v
    ls["any"] = e1.ListingSet(h, ALPHA_ANY, 3)
    ls["c01main"] = e1.ListingSet(h, e1.ALPHA_MAIN, 2)
    ls["padded"] = e1.ListingSet(h, _mods()["C04"].ALPHA_I, 3, addrs=["00401000", "00401003", "0040100a"])   # zero-padded addresses
    ls["addr64"] = e1.ListingSet(h, _mods()["C04"].ALPHA_I, 3, addrs=["ffffffff81000000", "ffffffff81000003", "ffffffff8100000a"])
    return ls


def first_mode_check(h, res, known, rules, lsets, shard):
    """first-match mode: the single reported match must be aligned and carry the right address too."""
    from mc.common import make_rule_doc, flags_config, record_offsets
    for ri in range(shard["lo"], len(rules), shard["n"] * 4):   # every 4th rule of the shard: first-mode shares the scan code path
        rc = rules[ri]
        try:
            mop = h.mop(make_rule_doc(rc.pattern, flags_config(*rc.cfgs[0])))
        except Exception:
            continue
        for idx, path, norm, att in lsets[rc.lset]:
            res.evaluations += 1
            t = h.match(mop, path, mode="first")
            a = h.match(mop, path, mode="first", only_addr=True)
            if not t or t[0] == "":
                continue
            stream = rm.encode(norm)
            offs = record_offsets(norm)
            p = stream.find(t[0])
            ok = p in offs and (p + len(t[0])) in offs
            if ok and p < len(stream):
                ok = a == [norm[offs.index(p)][0]]
            if not ok:
                res.fail({"clause": "first-aligned", "rule": make_rule_doc(rc.pattern, flags_config(*rc.cfgs[0])),
                          "listing": [[x, y, list(z)] for x, y, z in att], "family": rc.family,
                          "expected": "aligned match with the first covered instruction's address", "observed": [t, a],
                          "size": len(att) * 10 + len(str(rc.pattern))}, known)


LONGLIST = [(["mov", "push", "ret"], [("mov", ["%rax", "%rbx"]), ("push", ["%rax"]), ("ret", [])]),
            ([{"$or": ["call", "jmp"]}, {"mov": ["rbx"]}], [("call", ["507fff"]), ("mov", ["%rbx", "%rax"])])]


def long_text_check(h, mop, path, n, pos, window):
    """full-text result of the long family: exactly the window's records, aligned"""
    if pos is None:
        return []
    full = h.match(mop, path, mode="all")
    exp = rm.encode([e1.norm_inst(f"{0x400000 + 3 * (pos + k):x}", m, o) for k, (m, o) in enumerate(window)])
    return [] if full == [exp] else [("long-text", exp, [t[:120] for t in full[:3]])]


def run_big_match(shard, h, res, known):
    """one match covering hundreds of instructions: the reported text is the whole run (no cap), in both modes"""
    from mc.common import fmt_listing, make_rule_doc
    jobs = [(k, item) for k in (150, 400, 700, 2000) for item in ({"nop": {"times": {"min": 2, "max": 3000}}}, {"$or": ["nop", "mov"], "times": {"min": 2, "max": 3000}})]
    for ji in range(shard["lo"], len(jobs), shard["n"]):
        k, item = jobs[ji]
        att = [("400000", "ret", [])] + [(f"{0x400001 + i:x}", "nop", []) for i in range(k)] + [(f"{0x400001 + k:x}", "ret", [])]
        path = h.write(f"bigmatch_{os.getpid()}.s", fmt_listing(att))
        pat = ["ret", item, "ret"]
        mop = h.mop(make_rule_doc(pat))
        exp = rm.encode([e1.norm_inst(*x) for x in att])
        for mode in ("all", "first"):
            res.evaluations += 1
            res.nontrivial += 1
            got = h.match(mop, path, mode=mode)
            if got != [exp]:
                res.fail({"clause": "big-match-text", "family": "bigmatch", "rule": make_rule_doc(pat), "run_length": k, "mode": mode,
                          "expected": f"one match of {len(exp)} characters", "observed": [f"{len(t)} characters ending {t[-40:]!r}" for t in got],
                          "size": k}, known)


def run_shard(shard, tier, h, res, known):
    e1.run_long_family(h, res, known, shard, LONGLIST, [32800, 65600] if tier == "quick" else [4200, 8300, 32800, 65600, 131200], prop=ID,
                       extra_check=long_text_check)
    run_big_match(shard, h, res, known)
    lsets = e1.get_lsets(h, tier, build_lsets)
    rules = all_rules(tier)
    e1.run_rules(h, res, known, rules, lsets, shard, prop=ID)
    first_mode_check(h, res, known, rules, lsets, shard)
    # @any family: compiled with the shipped macro file by the real expander; reference sees the ANY token
    pats = any_rules()
    ls = lsets["any"]
    from mc.common import make_rule_doc
    for pi in range(shard["lo"], len(pats), shard["n"]):
        pat = pats[pi]
        refpat = _sub(pat, "@any", rm.ANY)
        doc = make_rule_doc(pat)
        try:
            mop = h.mop(doc, macros=[ANY_MACROS])
        except Exception as e:
            res.evaluations += 1
            res.fail({"clause": "compile", "rule": doc, "macros": [ANY_MACROS_REL], "listing": [], "family": "any",
                      "expected": "compiles", "observed": repr(e), "size": 0}, known)
            continue
        ref = rm.Ref()
        for idx, path, norm, att in ls:
            res.evaluations += 1
            problems, rfound = e1.analyse(h, mop, ref, refpat, path, norm, want=("verdict",) + W)
            if rfound:
                res.nontrivial += 1
            for clause, exp, obs in problems:
                res.fail({"clause": clause, "rule": doc, "refpattern": refpat, "macros": [ANY_MACROS_REL], "family": "any",
                          "listing": [[a, m, list(o)] for a, m, o in att], "expected": exp, "observed": obs,
                          "size": len(att) * 10 + len(str(pat))}, known)


def controls(h):
    norm = [e1.norm_inst("10", "push", ["%rax"]), e1.norm_inst("14", "mov", ["%rax", "%rbx"])]
    r = rm.Ref()
    if r.found([{"push": [rm.ANY, rm.ANY]}], norm):
        raise HarnessError("reference: @any must not match a missing operand")
    if not r.found([{"mov": [rm.ANY, rm.ANY]}], norm):
        raise HarnessError("reference: @any must match present operands")
    if not os.path.exists(ANY_MACROS):
        raise HarnessError("shipped macro file missing")


def replay(case, h):
    from mc.common import fmt_listing
    if case.get("family") == "longlisting":
        return e1.replay_long_case(case, h)
    if case.get("family") == "bigmatch":
        k = case["run_length"]
        att = [("400000", "ret", [])] + [(f"{0x400001 + i:x}", "nop", []) for i in range(k)] + [(f"{0x400001 + k:x}", "ret", [])]
        got = h.match(h.mop(case["rule"]), h.write("bigmatch_replay.s", fmt_listing(att)), mode=case["mode"])
        return got != [rm.encode([e1.norm_inst(*x) for x in att])], f"{[len(t) for t in got]} characters"
    if case.get("family") == "any":
        att = [(a, m, list(o)) for a, m, o in case["listing"]]
        norm = [e1.norm_inst(*x) for x in att]
        try:
            mop = h.mop(case["rule"], macros=[m.replace("<repo>", REPO) for m in case["macros"]])
        except Exception as e:
            return True, repr(e)
        problems, rfound = e1.analyse(h, mop, rm.Ref(), case["refpattern"], h.listing_file(fmt_listing(att)), norm,
                                      want=("verdict",) + W)
        return bool(problems), f"reference found={rfound}; problems={problems}"
    if case.get("clause") == "first-aligned":
        att = [(a, m, list(o)) for a, m, o in case["listing"]]
        mop = h.mop(case["rule"])
        p = h.listing_file(fmt_listing(att))
        return True, f"first={h.match(mop, p, mode='first')} addr={h.match(mop, p, mode='first', only_addr=True)} (see clause)"
    return e1.replay_case(case, h, want=W)
