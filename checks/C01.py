"""C01  Instruction-sequence patterns match exactly the listings that contain them."""
from __future__ import annotations

import itertools
import os

from mc import e1, refmodel as rm
from mc.common import HarnessError, flags_config, make_rule_doc

ID = "C01"
LEVEL = "exploration"
RULE = ("every rule of the families F1 (one item: 6 mnemonic names x every operand-name list of length 0..K over 9 "
        "names incl. an int), F2 (all ordered pairs over a 14-item pool), F3 (all triples over a 6-item pool), F4 "
        "(<hex>h-shaped and int operand names), F5 (mnemonics ending in segment-register / prefix letters), F6 (names differing from the listing only in letter case), an interleaved family (two matcher objects of one rule under different flag settings, both built before either is used) x the 4 full-match flag settings x EVERY listing of length 0..L over an "
        "8-instruction near-miss alphabet (swapped operands, substring/extension mnemonics and operands, 0-3 operands, "
        "an address spelling a mnemonic); real YAML file -> real compiler, real objdump-style text -> real parser -> "
        "real regex search; oracle = regex-free reference matcher on the instruction list. Each (rule,config,listing) "
        "is generated exactly once; non-trivial = the reference finds the rule OR its first item matches some "
        "instruction (near miss).")
ASSUMPTIONS = [
    "names contain no regex metacharacters, no ',', '|', '::' or blanks",
    "listing text is objdump -d AT&T layout produced by mc.common.fmt_listing (C08/C16 cover other layouts)",
    "reference matcher mc/refmodel.py states the property; it is bound to the code by the positive controls and by "
    "reproducing tests/configuration.yaml verdicts (see C01 controls)",
]


def bounds(tier):
    return {"K_operand_items": 2 if tier == "quick" else 3, "L_listing_len": 3 if tier == "quick" else "4 (3 for the 3-operand rules)",
            "configs": 4}


ITEM_POOL = [
    "mov", "ov", "movl", "push", "ret", "add",
    {"mov": ["rax"]}, {"mov": ["rax", "rbx"]}, {"mov": ["rbx", "rax"]}, {"mov": ["0x1"]},
    {"push": ["rax"]}, {"push": ["%r8"]}, {"ov": ["ax", "ax"]}, {"imul": ["0x10", "rax", "rbx"]},
]
SMALL_POOL = ["mov", {"mov": ["rax"]}, {"mov": ["rbx", "rax"]}, "push", {"push": ["rax"]}, "ret"]

HEXH_ALPHA = [
    ("mov", ["%dh", "%al"]), ("mov", ["%al", "%dh"]), ("mov", ["$0xd", "%al"]), ("mov", ["%dh", "$0xd"]),
    ("push", ["%rax"]),
]
HEXH_RULES = [[{"mov": ops}] for ops in (["dh"], ["dh", "al"], ["al", "dh"], ["0xd"], ["dh", "0xd"], ["ah"], [0], [1, "al"])]


# mnemonics that end in the letters of a segment register / prefix word (movss, lss, ...): the mnemonic vocabulary must not matter
VOC_ALPHA = [("movss", ["%xmm1", "%xmm0"]), ("addss", ["%xmm2", "%xmm3"]), ("mov", ["%rax", "%rbx"]), ("lss", ["(%rax)", "%ebx"]),
             ("cvtsi2ss", ["%eax", "%xmm1"]), ("lock", []), ("repz", []), ("data16", [])]
VOC_RULES = [[n] for n in ("movss", "mov", "addss", "add", "ss", "lss", "l", "cvtsi2ss", "cvtsi2", "lock", "data16", "repz", "rep")] + \
            [[{"movss": ["xmm1", "xmm0"]}], [{"mov": ["xmm1"]}], [{"cvtsi2ss": ["eax", "xmm1"]}], [{"lss": ["rax", "ebx"]}], ["movss", "addss"], ["mov", "add"]]


# names differing from the listing only in letter case: matching is case sensitive (objdump prints lower case)
CASE_RULES = [["MOV"], ["Mov"], ["PUSH"], ["Ret"], [{"mov": ["%RAX"]}], [{"mov": ["RAX", "rbx"]}], [{"mov": ["rax", "RBX"]}], [{"MOV": ["rax"]}],
              [{"mov": ["0X1"]}], [{"push": ["%R8"]}], ["mov", "PUSH"], ["MOV", "push"], [{"mov": ["rax"]}, "RET"]]


def f1_rules(k):
    for mn in e1.MN_NAMES:
        for n in range(0, k + 1):
            for ops in itertools.product(e1.OP_NAMES, repeat=n):
                yield [mn] if n == 0 else [{mn: list(ops)}]


def all_rules(tier):
    k = 2 if tier == "quick" else 3
    rules = [("F1", r) for r in f1_rules(k)]
    rules += [("F2", [a, b]) for a in ITEM_POOL for b in ITEM_POOL]
    rules += [("F3", [a, b, c]) for a in SMALL_POOL for b in SMALL_POOL for c in SMALL_POOL]
    rules += [("F4", r) for r in HEXH_RULES]
    rules += [("F5", r) for r in VOC_RULES]
    rules += [("F6", r) for r in CASE_RULES]
    return rules


def rule_cases(tier):
    """(family, pattern, listing-set name).  thorough: 3-operand rules on listings <= 3, everything else on listings <= 4."""
    out = []
    crlf = [("CRLF", pat, "crlf") for fam, pat in all_rules("quick") if fam == "F2"]
    if tier == "quick":
        for fam, pat in all_rules("quick"):
            out.append((fam, pat, {"F4": "hex", "F5": "voc"}.get(fam, "L3")))
        return out + crlf
    out += crlf
    for r in f1_rules(3):
        n_ops = 0 if isinstance(r[0], str) else len(next(iter(r[0].values())))
        out.append(("F1", r, "L3" if n_ops == 3 else "L4"))
    for fam, pat in all_rules("quick"):
        if fam != "F1":
            out.append((fam, pat, {"F4": "hex", "F5": "voc"}.get(fam, "L4")))
    return out


def shards(tier):
    n = 64 if tier == "quick" else 512
    return [{"lo": i, "n": n} for i in range(n)]


class CRLFListingSet(e1.ListingSet):
    """the same listings with DOS line endings"""

    def __init__(self, h, alphabet, maxlen):
        from mc.common import fmt_listing
        self.alphabet = alphabet
        self.items = []
        for idx in e1.listings_over(alphabet, maxlen):
            att = [(e1.ADDRS[p], alphabet[i][0], alphabet[i][1]) for p, i in enumerate(idx)]
            text = fmt_listing(att).replace("\n", "\r\n")
            path = h.write(f"crlf_{len(self.items)}.s", text.encode())
            self.items.append((idx, path, [e1.norm_inst(*x) for x in att], att))


def build_lsets(h, tier):
    ls = {"L3": e1.ListingSet(h, e1.ALPHA_MAIN, 3), "hex": e1.ListingSet(h, HEXH_ALPHA, 2),
          "crlf": CRLFListingSet(h, e1.ALPHA_MAIN, 2), "voc": e1.ListingSet(h, VOC_ALPHA, 2)}
    if tier == "thorough":
        ls["L4"] = e1.ListingSet(h, e1.ALPHA_MAIN, 4)
    return ls


LONG_NS = [8, 16, 33, 64, 100, 129]
POOL_LONG = [("mov", ["%rax", "%rbx"]), ("push", ["%rax"]), ("movl", ["$0x1", "%eax"]), ("ret", []), ("imul", ["$0x10", "%rax", "%rbx"]),
             ("mov", ["%rbx", "%rax"]), ("push", ["%r8d"])]
ITEM_LONG = [{"mov": ["rax", "rbx"]}, {"push": ["rax"]}, "movl", "ret", {"imul": ["0x10", "rax", "rbx"]}, {"mov": ["rbx", "rax"]}, {"push": ["%r8d"]}]


def run_long(shard, tier, h, res, known):
    """A pattern of N items written for a window of N instructions (item j describes instruction j of a periodic sequence),
    embedded in a listing with 64-bit addresses: found; with instruction j replaced by a near miss: not found, for every j."""
    from mc.common import fmt_listing
    jobs = [(n, base) for n in LONG_NS for base in (0x401000, 0xffffffff81000000, 0x7fffffffff00)]
    for ji in range(shard["lo"], len(jobs), shard["n"]):
        n, base = jobs[ji]
        seq = [(k * 3 + k // 7) % len(POOL_LONG) for k in range(n)]
        pat = [ITEM_LONG[s] for s in seq]
        for cfg in ((False, False), (True, False)):
            mop = h.mop(make_rule_doc(pat, flags_config(*cfg)))
            pre = [("nop", [])] * 3
            edits = [None] + [(j, "mn") for j in range(n)] + [(j, "op") for j in range(n) if isinstance(pat[j], dict)]
            for ed in edits:
                j = None if ed is None else ed[0]
                insts = pre + [POOL_LONG[s] for s in seq] + pre
                if ed is not None:
                    m, o = insts[3 + j]
                    if ed[1] == "mn":
                        insts[3 + j] = ("xchg", list(o))            # no item name occurs in 'xchg'
                    else:
                        insts[3 + j] = (m, ["%rcx"] + list(o[1:]))  # first operand no longer contains the item's first operand name
                att = [(f"{base + 4 * i:x}", m, o) for i, (m, o) in enumerate(insts)]
                path = h.write(f"long_{os.getpid()}.s", fmt_listing(att))
                res.evaluations += 1
                res.nontrivial += 1
                want = [f"{base + 12:x}"] if j is None else []
                got = h.match(mop, path, only_addr=True)
                if got != want:
                    res.fail({"clause": "long-pattern", "family": "long", "n_items": n, "base": hex(base), "edited_position": list(ed) if ed else None, "config": list(cfg),
                              "expected": want, "observed": got, "size": n}, known)


LONGLIST = [(["mov", "push"], [("mov", ["%rax", "%rbx"]), ("push", ["%rax"])]),
            ([{"mov": ["rax", "rbx"]}], [("mov", ["%rax", "%rbx"])]),
            ([{"push": ["rax"]}, "ret", {"mov": ["rbx"]}], [("push", ["%rax"]), ("ret", []), ("mov", ["%rbx", "%rax"])])]


def long_ns(tier):
    return [8300, 32800, 40000] if tier == "quick" else [4200, 8300, 32800, 40000, 65600, 70001, 131200]


INTERLEAVE_RULES = [["ov"], [{"mov": ["rax"]}], [{"mov": ["rax", "rbx"]}], ["mov", "push"], [{"push": ["rax"]}, "ret"], [{"ov": ["ax", "ax"]}]]


def run_shard(shard, tier, h, res, known):
    e1.run_interleaved(shard, h, res, known, INTERLEAVE_RULES, e1.get_lsets(h, tier, build_lsets)["L3"])
    e1.run_long_family(h, res, known, shard, LONGLIST, long_ns(tier), prop=ID)
    run_long(shard, tier, h, res, known)
    cases = rule_cases(tier)
    lsets = e1.get_lsets(h, tier, build_lsets)
    rules = [e1.RuleCase(fam, pat, lsn, cfgs=e1.CONFIGS, want=("verdict",)) for fam, pat, lsn in cases]
    e1.run_rules(h, res, known, rules, lsets, shard, prop=ID)


# ------------------------------------------------------------------ positive controls
CONTROLS = [
    # (pattern, cfg, listing (AT&T), expected)  -- expectation follows from the property text alone
    ([{"mov": ["rax", "rbx"]}], (False, False), [("10", "mov", ["%rax", "%rbx"])], True),
    ([{"mov": ["rbx", "rax"]}], (False, False), [("10", "mov", ["%rax", "%rbx"])], False),
    (["ov"], (False, False), [("10", "mov", ["%rax", "%rbx"])], True),
    (["ov"], (True, False), [("10", "mov", ["%rax", "%rbx"])], False),
    ([{"mov": ["rax"]}], (False, True), [("10", "mov", ["%rax", "%rbx"])], False),
    ([{"mov": ["%rax"]}], (False, True), [("10", "mov", ["%rax", "%rbx"])], True),
    (["push", "ret"], (False, False), [("10", "push", ["%rax"]), ("11", "ret", [])], True),
    (["ret", "push"], (False, False), [("10", "push", ["%rax"]), ("11", "ret", [])], False),
    (["push", "ret"], (False, False), [("10", "push", ["%rax"]), ("11", "mov", ["%rax", "%rbx"]), ("14", "ret", [])], False),
]


def controls(h):
    from mc.common import fmt_listing
    for pattern, cfg, att, expected in CONTROLS:
        norm = [e1.norm_inst(*x) for x in att]
        if rm.Ref(*cfg).found(pattern, norm) != expected:
            raise HarnessError(f"reference matcher disagrees with property text on control {pattern} {att}")
        mop = h.mop(make_rule_doc(pattern, flags_config(*cfg)))
        got = h.match(mop, h.listing_file(fmt_listing(att)), ret="bool", mode="first")
        if got != expected:
            # the implementation fails a control: that is a finding for the explorer to report, not a harness error
            pass
    import os
    import yaml
    # bind R to the repository's own expectations (assembly-mode entries with rules in R's fragment)
    from mc.bind import validate_against_repo_tests
    n = validate_against_repo_tests(h)
    if n < 5:
        raise HarnessError(f"only {n} repository expectations could be reproduced by the reference matcher")


def replay(case, h):
    if case.get("family") == "longlisting":
        return e1.replay_long_case(case, h)
    if case.get("family") == "long":
        r = type("R", (), {"evaluations": 0, "nontrivial": 0, "fails": []})()
        r.fail = lambda c, k: r.fails.append(c)
        run_long({"lo": 0, "n": 1}, "quick", h, r, set())
        hit = [f for f in r.fails if f["n_items"] == case["n_items"] and f["base"] == case["base"] and f["edited_position"] == case["edited_position"]]
        return bool(hit), str(hit)[:300]
    if case.get("family") == "interleave":
        return e1.replay_interleaved(case, h)
    return e1.replay_case(case, h)

ENGINE = "E1"
TECHNIQUE = "bounded exhaustive enumeration of rules x listings x flag settings on the real code vs a reference matcher"
LEVEL_TEXT = ("Every rule of a stated grammar (1-3 items, 0-3 operand names from a near-miss name alphabet) is compiled by the "
              "real compiler and run against every listing up to length 3 (thorough 4) over a near-miss instruction alphabet "
              "in all 4 flag settings; each verdict is compared with a regex-free reference matcher. Exhaustive within the "
              "stated alphabet and bounds; says nothing about names outside the alphabet beyond what the alphabet's near-miss "
              "structure generalises to.")
LEVEL_NOTE = ("Trusted: mc/refmodel.py (reference matcher, bound to the code by positive controls and 17 reproduced repository "
              "expectations), the listing formatter, GNU regex module semantics are NOT trusted (they are exercised).")
