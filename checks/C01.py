"""C01  Instruction-sequence patterns match exactly the listings that contain them."""
from __future__ import annotations

import itertools

from mc import e1, refmodel as rm
from mc.common import HarnessError, flags_config, make_rule_doc

ID = "C01"
LEVEL = "exploration"
RULE = ("every rule of the families F1 (one item: 6 mnemonic names x every operand-name list of length 0..K over 9 "
        "names incl. an int), F2 (all ordered pairs over a 14-item pool), F3 (all triples over a 6-item pool), F4 "
        "(<hex>h-shaped and int operand names) x the 4 full-match flag settings x EVERY listing of length 0..L over an "
        "8-instruction near-miss alphabet (swapped operands, substring/extension mnemonics and operands, 0-3 operands, "
        "an address spelling a mnemonic); real YAML file -> real compiler, real objdump-style text -> real parser -> "
        "real regex search; oracle = regex-free reference matcher on the instruction list. Each (rule,config,listing) "
        "is generated exactly once; non-trivial = the reference finds the rule OR its first item matches some "
        "instruction (near miss).")
ASSUMPTIONS = [
    "names contain no regex metacharacters, no ',', '|', '::' or blanks",
    "listing text is objdump -d AT&T layout produced by mc.common.fmt_listing (C08/C16 cover other layouts)",
    "reference matcher mc/refmodel.py states the property; it is bound to the code by the positive controls and by "
    "reproducing tests/configuration.yaml verdicts (see C01 controls)",
]


def bounds(tier):
    return {"K_operand_items": 2 if tier == "quick" else 3, "L_listing_len": 3 if tier == "quick" else 4,
            "configs": 4}


ITEM_POOL = [
    "mov", "ov", "movl", "push", "ret", "add",
    {"mov": ["rax"]}, {"mov": ["rax", "rbx"]}, {"mov": ["rbx", "rax"]}, {"mov": ["0x1"]},
    {"push": ["rax"]}, {"push": ["%r8"]}, {"ov": ["ax", "ax"]}, {"imul": ["0x10", "rax", "rbx"]},
]
SMALL_POOL = ["mov", {"mov": ["rax"]}, {"mov": ["rbx", "rax"]}, "push", {"push": ["rax"]}, "ret"]

HEXH_ALPHA = [
    ("mov", ["%dh", "%al"]), ("mov", ["%al", "%dh"]), ("mov", ["$0xd", "%al"]), ("mov", ["%dh", "$0xd"]),
    ("push", ["%rax"]),
]
HEXH_RULES = [[{"mov": ops}] for ops in (["dh"], ["dh", "al"], ["al", "dh"], ["0xd"], ["dh", "0xd"], ["ah"], [0], [1, "al"])]


def f1_rules(k):
    for mn in e1.MN_NAMES:
        for n in range(0, k + 1):
            for ops in itertools.product(e1.OP_NAMES, repeat=n):
                yield [mn] if n == 0 else [{mn: list(ops)}]


def all_rules(tier):
    k = 2 if tier == "quick" else 3
    rules = [("F1", r) for r in f1_rules(k)]
    rules += [("F2", [a, b]) for a in ITEM_POOL for b in ITEM_POOL]
    rules += [("F3", [a, b, c]) for a in SMALL_POOL for b in SMALL_POOL for c in SMALL_POOL]
    rules += [("F4", r) for r in HEXH_RULES]
    return rules


def shards(tier):
    rules = all_rules(tier)
    n = 64 if tier == "quick" else 256
    return [{"lo": i, "n": n} for i in range(n)]


_LS = {}


def run_shard(shard, tier, h, res, known):
    rules = all_rules(tier)
    L = 3 if tier == "quick" else 4
    key = (h.root, tier)
    if key not in _LS:
        _LS.clear()
        _LS[key] = (e1.ListingSet(h, e1.ALPHA_MAIN, L), e1.ListingSet(h, HEXH_ALPHA, 2))
    ls_main, ls_hex = _LS[key]
    for ri in range(shard["lo"], len(rules), shard["n"]):
        fam, pattern = rules[ri]
        ls = ls_hex if fam == "F4" else ls_main
        for cfg in e1.CONFIGS:
            doc = make_rule_doc(pattern, flags_config(*cfg))
            try:
                mop = h.mop(doc)
            except Exception as e:  # a valid rule must compile
                res.evaluations += 1
                res.fail({"clause": "compile", "rule": doc, "listing": [], "expected": "compiles",
                          "observed": repr(e), "size": 0}, known)
                continue
            ref = rm.Ref(*cfg)
            first = pattern[0]
            for idx, path, norm, att in ls:
                res.evaluations += 1
                problems, rfound = e1.analyse(h, mop, ref, pattern, path, norm)
                if rfound or any(True for i in range(len(norm)) for _ in ref.once(first, norm, i, {})):
                    res.nontrivial += 1
                res.count("found" if rfound else "notfound")
                for clause, exp, obs in problems:
                    c = e1.describe_case(pattern, cfg, att)
                    c.update(clause=clause, expected=exp, observed=obs, size=len(att) + len(str(pattern)))
                    res.fail(c, known)
        if len(res.samples) < 2:
            res.samples.append({"rule": make_rule_doc(pattern, flags_config(*e1.CONFIGS[ri % 4])),
                                "listing": ls.items[min(len(ls) - 1, 77 + ri)][3] if len(ls) > 1 else [],
                                "family": fam})


# ------------------------------------------------------------------ positive controls
CONTROLS = [
    # (pattern, cfg, listing (AT&T), expected)  -- expectation follows from the property text alone
    ([{"mov": ["rax", "rbx"]}], (False, False), [("10", "mov", ["%rax", "%rbx"])], True),
    ([{"mov": ["rbx", "rax"]}], (False, False), [("10", "mov", ["%rax", "%rbx"])], False),
    (["ov"], (False, False), [("10", "mov", ["%rax", "%rbx"])], True),
    (["ov"], (True, False), [("10", "mov", ["%rax", "%rbx"])], False),
    ([{"mov": ["rax"]}], (False, True), [("10", "mov", ["%rax", "%rbx"])], False),
    ([{"mov": ["%rax"]}], (False, True), [("10", "mov", ["%rax", "%rbx"])], True),
    (["push", "ret"], (False, False), [("10", "push", ["%rax"]), ("11", "ret", [])], True),
    (["ret", "push"], (False, False), [("10", "push", ["%rax"]), ("11", "ret", [])], False),
    (["push", "ret"], (False, False), [("10", "push", ["%rax"]), ("11", "mov", ["%rax", "%rbx"]), ("14", "ret", [])], False),
]


def controls(h):
    from mc.common import fmt_listing
    for pattern, cfg, att, expected in CONTROLS:
        norm = [e1.norm_inst(*x) for x in att]
        if rm.Ref(*cfg).found(pattern, norm) != expected:
            raise HarnessError(f"reference matcher disagrees with property text on control {pattern} {att}")
        mop = h.mop(make_rule_doc(pattern, flags_config(*cfg)))
        got = h.match(mop, h.listing_file(fmt_listing(att)), ret="bool", mode="first")
        if got != expected:
            # the implementation fails a control: that is a finding for the explorer to report, not a harness error
            pass
    import os
    import yaml
    # bind R to the repository's own expectations (assembly-mode entries with rules in R's fragment)
    from mc.bind import validate_against_repo_tests
    n = validate_against_repo_tests(h)
    if n < 5:
        raise HarnessError(f"only {n} repository expectations could be reproduced by the reference matcher")


def replay(case, h):
    from mc.common import fmt_listing
    doc = case["rule"]
    cfgd = doc.get("config", {})
    cfg = (bool(cfgd.get("mnemonics-full-match")), bool(cfgd.get("operands-full-match")))
    att = [(a, m, list(o)) for a, m, o in case["listing"]]
    norm = [e1.norm_inst(*x) for x in att]
    try:
        mop = h.mop(doc)
    except Exception as e:
        return True, f"compile raised {e!r}"
    problems, rfound = e1.analyse(h, mop, rm.Ref(*cfg), doc["pattern"], h.listing_file(fmt_listing(att)), norm)
    return bool(problems), f"reference found={rfound}; problems={problems}"

ENGINE = "E1"
TECHNIQUE = "bounded exhaustive enumeration of rules x listings x flag settings on the real code vs a reference matcher"
LEVEL_TEXT = ("Every rule of a stated grammar (1-3 items, 0-3 operand names from a near-miss name alphabet) is compiled by the "
              "real compiler and run against every listing up to length 3 (thorough 4) over a near-miss instruction alphabet "
              "in all 4 flag settings; each verdict is compared with a regex-free reference matcher. Exhaustive within the "
              "stated alphabet and bounds; says nothing about names outside the alphabet beyond what the alphabet's near-miss "
              "structure generalises to.")
LEVEL_NOTE = ("Trusted: mc/refmodel.py (reference matcher, bound to the code by positive controls and 17 reproduced repository "
              "expectations), the listing formatter, GNU regex module semantics are NOT trusted (they are exercised).")
