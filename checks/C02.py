"""C02  Repetition bounds (`times`) are honoured exactly."""
from __future__ import annotations

import copy
import os

from mc import e1, refmodel as rm
from mc.common import HarnessError, fmt_listing, flags_config, make_rule_doc

ID = "C02"
LEVEL = "exploration"
ENGINE = "E1"
TECHNIQUE = "bounded exhaustive enumeration of repeated items x bounds x contexts x listings on the real code vs reference matcher, plus times:n vs n-copies differential"
RULE = ("every item kind (plain mnemonic, mnemonic+operands, $and/$or/$not/$and_any_order groups, nested group) x every "
        "bound (times:n for n in 0..N; {min,max} for 0<=min<=max<=N) in the spelling the grammar admits (inside the body "
        "for a plain mnemonic, sibling key otherwise) x 7 contexts (alone, after 'ret', before 'ret', between, and three where the neighbour can match the same instruction as the repeated item) x EVERY "
        "listing of length 0..L over a 4-instruction alphabet, so runs of 0..L repetitions all occur; the plain / operand / $not / $or kinds also on every listing of length 0..3 over a value-rich alphabet (vmovdqu, cmovne, 4- and 5-operand instructions); oracle = reference "
        "matcher (verdict, every reported span genuine and record-aligned); large-count family: times n / {min,max} for n up to 1001 on plain, $or, $not and $and items against runs of lo-1, lo, mid, hi, hi+1 repetitions (closed-form expectation); differential: times:n and the item written n "
        "times give identical result lists on every listing. Non-trivial = reference finds the rule or its first item "
        "matches somewhere.")
ASSUMPTIONS = ["repeated items contain no capture-group definition (C05 scope)",
               "partial bounds ({min} only / {max} only) are not generated: the property does not define the default"]
LEVEL_TEXT = ("All repeated-item rules of the stated grammar x all listings up to the bound; verdicts and reported spans "
              "compared with the reference matcher; n-copies differential on the real code. Exhaustive within bounds.")
LEVEL_NOTE = "Trusted: mc/refmodel.py times semantics (r consecutive repetitions, min<=r<=max), listing formatter."

ALPHA = [("mov", ["%rax", "%rbx"]), ("push", ["%rax"]), ("ret", []), ("movl", ["$0x1", "%eax"])]
# a second, value-rich alphabet: mnemonics with letters in FRONT of the rule's name and digits (vmovdqu, cmovne), 4 and 5 operands
VALPHA = [("vmovdqu", ["%ymm1", "%ymm2"]), ("cmovne", ["%rax", "%rbx"]), ("vblendvps", ["%xmm3", "%xmm2", "%xmm1", "%xmm0"]), ("ret", []),
          ("vpermil2ps", ["$0x0", "%xmm3", "%xmm2", "%xmm1", "%xmm0"])]


def bounds(tier):
    return {"N_max_bound": 3 if tier == "quick" else 4, "L_listing_len": 4 if tier == "quick" else 5}


def item_kinds(tier):
    kinds = [
        ("plain", "mov"),
        ("ops", {"mov": ["rax"]}),
        ("and", {"$and": ["mov", "push"]}),
        ("or", {"$or": ["mov", "push"]}),
        ("not", {"$not": ["mov"]}),
        ("aao", {"$and_any_order": ["mov", "push"]}),
        ("and1", {"$and": ["mov"]}),
        ("or_ops", {"$or": [{"mov": ["rbx"]}, {"push": ["rax"]}]}),
        ("not_and", {"$not": [{"$and": ["mov", "push"]}]}),
    ]
    if tier == "thorough":
        kinds += [
            ("and3", {"$and": ["mov", "push", "mov"]}),
            ("aao3", {"$and_any_order": ["mov", "push", "push"]}),
            ("and_or", {"$and": [{"$or": ["mov", "push"]}, "push"]}),
            ("or_and", {"$or": [{"$and": ["mov", "push"]}, "push"]}),
            ("not_or", {"$not": [{"$or": ["mov", "ret"]}]}),
        ]
    return kinds


def with_times(item, t):
    """Attach a times value in the spelling the grammar admits for this item kind."""
    if isinstance(item, str):
        return {item: {"times": t}}
    d = copy.deepcopy(item)
    d["times"] = t
    return d


def all_bounds(n):
    out = [("int", k) for k in range(0, n + 1)]
    out += [("mm", {"min": lo, "max": hi}) for lo in range(0, n + 1) for hi in range(lo, n + 1)]
    return out


def contexts(item):
    # 'overlap' contexts: the neighbour can match the very instruction the repeated item matches, so a repetition count
    # other than the greedy maximum has to be tried (backtracking into the quantifier)
    return [("alone", [item]), ("after", ["ret", item]), ("before", [item, "ret"]), ("between", ["ret", item, "ret"]),
            ("overlap_after", [item, "mov"]), ("overlap_before", ["mov", item]), ("overlap_after_push", [item, "push", "ret"])]


def all_rules(tier):
    n = bounds(tier)["N_max_bound"]
    rules = []
    for kname, item in item_kinds(tier):
        for bkind, t in all_bounds(n):
            rep = with_times(item, t)
            ctxs = contexts(rep)
            if bkind == "int" and t == 2:
                # the SAME mapping object twice: yaml.safe_dump writes it as an anchor and an alias (&id001 / *id001), a
                # legitimate way to write a repeated item; the loaded rule then contains one dict object twice
                ctxs = ctxs + [("alias_twice", [rep, rep]), ("alias_apart", [rep, "ret", rep])]
            for cname, pat in ctxs:
                copies = None
                if bkind == "int":
                    copies = [x for x in pat if x is not rep] if t == 0 else \
                        [copy.deepcopy(y) for x in pat for y in ([item] * t if x is rep else [x])]
                cfgs = ((False, False),)
                if kname in ("plain", "ops", "or_ops") and cname in ("alone", "before", "overlap_after"):
                    cfgs = e1.CONFIGS     # repetition must not disturb the full-match flags (mov vs movl, rax vs %rax)
                rules.append(e1.RuleCase(f"{kname}/{bkind}/{cname}", pat, "c02", cfgs=cfgs, want=("verdict", "aligned", "genuine"),
                                         extra=copies))
                if kname in ("plain", "ops", "not", "or", "not_and") and cname in ("alone", "before", "between"):
                    rules.append(e1.RuleCase(f"{kname}/{bkind}/{cname}/v", pat, "c02v", cfgs=((False, False),), want=("verdict", "aligned", "genuine"),
                                             extra=copies))
    return rules


BIG = [9, 10, 11, 12, 31, 32, 33, 99, 100, 101, 255, 256, 999, 1000, 1001]


def big_cases(tier):
    """(item-with-times, lo, hi): large repetition counts, checked against runs of k = lo-1, lo, hi, hi+1 and a mid value"""
    out = []
    ns = BIG if tier == "thorough" else [9, 10, 11, 12, 33, 100, 101, 1000, 1001]
    for n in ns:
        out.append(({"mov": {"times": n}}, n, n))
        out.append(({"$or": ["mov", "push"], "times": n}, n, n))
        out.append(({"$not": ["ret"], "times": n}, n, n))
    for lo, hi in ((0, 1000), (10, 12), (99, 101), (1, 1000), (999, 1001), (12, 12)):
        out.append(({"mov": {"times": {"min": lo, "max": hi}}}, lo, hi))
        out.append(({"$and": ["mov"], "times": {"min": lo, "max": hi}}, lo, hi))
    return out


def run_big(shard, tier, h, res, known):
    """pattern [ret, X{lo,hi}, ret] on the listing ret mov^k ret: found iff lo <= k <= hi (specification, no reference matcher needed)"""
    cases = big_cases(tier)
    for ci in range(shard["lo"], len(cases), shard["n"]):
        item, lo, hi = cases[ci]
        pat = ["ret", item, "ret"]
        doc = make_rule_doc(pat)
        try:
            mop = h.mop(doc)
        except Exception as e:
            res.evaluations += 1
            res.fail({"clause": "compile", "family": "big", "rule": doc, "expected": "compiles", "observed": repr(e), "size": 1}, known)
            continue
        for k in sorted({max(0, lo - 1), lo, (lo + hi) // 2, hi, hi + 1}):
            att = [("400000", "ret", [])] + [(f"{0x400001 + 3 * i:x}", "mov", ["%rax", "%rbx"]) for i in range(k)] + \
                  [(f"{0x400001 + 3 * k:x}", "ret", [])]
            path = h.write(f"big_{os.getpid()}.s", fmt_listing(att))
            res.evaluations += 1
            res.nontrivial += 1
            want = lo <= k <= hi
            try:
                got = h.match(mop, path, only_addr=True)
            except Exception as e:
                got = repr(e)
            exp = ["400000"] if want else []
            if got != exp:
                res.fail({"clause": "big-count", "family": "big", "rule": doc, "run_length": k, "expected": exp, "observed": got,
                          "size": k}, known)
            elif want:
                # the reported text must be exactly the k+2 records of the window (no cap, no cut)
                full = h.match(mop, path)
                exp_text = rm.encode([e1.norm_inst(*x) for x in att])
                if full != [exp_text]:
                    res.fail({"clause": "big-text", "family": "big", "rule": doc, "run_length": k, "expected": f"{len(exp_text)} characters: the whole window",
                              "observed": [f"{len(t)} characters ending {t[-30:]!r}" for t in full], "size": k}, known)


def shards(tier):
    return e1.std_shards(tier, 32, 128)


def build_lsets(h, tier):
    return {"c02": e1.ListingSet(h, ALPHA, bounds(tier)["L_listing_len"]), "c02v": e1.ListingSet(h, VALPHA, 3)}


def run_shard(shard, tier, h, res, known):
    run_big(shard, tier, h, res, known)
    rules = all_rules(tier)
    lsets = e1.get_lsets(h, tier, build_lsets)
    e1.run_rules(h, res, known, rules, lsets, shard, prop=ID)
    # differential: times:n  ==  n copies (real code vs real code)
    for ri in range(shard["lo"], len(rules), shard["n"]):
        rc = rules[ri]
        if rc.extra is None or rc.extra == []:
            continue
        ls = lsets[rc.lset]
        try:
            m1 = h.mop(make_rule_doc(rc.pattern))
            m2 = h.mop(make_rule_doc(rc.extra))
        except Exception:
            continue  # compile failures are reported by run_rules
        for idx, path, norm, att in ls:
            res.evaluations += 1
            a = h.match(m1, path)
            b = h.match(m2, path)
            if a != b:
                res.fail({"clause": "n-copies", "rule": make_rule_doc(rc.pattern), "copies": make_rule_doc(rc.extra),
                          "listing": [[x, y, list(z)] for x, y, z in att], "family": rc.family,
                          "expected": b, "observed": a, "size": len(att) * 10 + len(str(rc.pattern))}, known)


CONTROLS = [
    ([{"push": {"times": 2}}, "ret"], [("1", "push", ["%rax"]), ("2", "push", ["%rax"]), ("3", "ret", [])], True),
    ([{"push": {"times": 3}}, "ret"], [("1", "push", ["%rax"]), ("2", "push", ["%rax"]), ("3", "ret", [])], False),
    (["ret", {"push": {"times": {"min": 0, "max": 1}}}, "ret"], [("1", "ret", []), ("2", "ret", [])], True),
    (["ret", {"push": {"times": {"min": 1, "max": 2}}}, "ret"], [("1", "ret", []), ("2", "ret", [])], False),
    (["ret", {"$and": ["mov", "push"], "times": 2}, "ret"],
     [("1", "ret", []), ("2", "mov", ["%rax", "%rbx"]), ("3", "push", ["%rax"]), ("4", "mov", ["%rax", "%rbx"]),
      ("5", "push", ["%rax"]), ("6", "ret", [])], True),
]


def controls(h):
    for pattern, att, expected in CONTROLS:
        norm = [e1.norm_inst(*x) for x in att]
        if rm.Ref().found(pattern, norm) != expected:
            raise HarnessError(f"reference matcher disagrees with property text on control {pattern}")


def replay(case, h):
    if case.get("family") == "big":
        k = case.get("run_length", 0)
        att = [("400000", "ret", [])] + [(f"{0x400001 + 3 * i:x}", "mov", ["%rax", "%rbx"]) for i in range(k)] + [(f"{0x400001 + 3 * k:x}", "ret", [])]
        try:
            got = h.match(h.mop(case["rule"]), h.write("big_replay.s", fmt_listing(att)), only_addr=True)
        except Exception as e:
            return True, repr(e)
        return got != case["expected"], f"got {got}"
    if case.get("clause") == "n-copies":
        att = [(a, m, list(o)) for a, m, o in case["listing"]]
        p = h.listing_file(fmt_listing(att))
        a = h.match(h.mop(case["rule"]), p)
        b = h.match(h.mop(case["copies"]), p)
        return a != b, f"times-form={a} copies-form={b}"
    return e1.replay_case(case, h, want=("verdict", "aligned", "genuine"))
