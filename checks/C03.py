"""C03  $or / $and / $and_any_order compose as alternation, sequence, permutation."""
from __future__ import annotations

import itertools

from mc import e1, refmodel as rm
from mc.common import HarnessError

ID = "C03"
LEVEL = "exploration"
ENGINE = "E1"
TECHNIQUE = "bounded exhaustive enumeration of operator trees x contexts x listings on the real code vs reference matcher"
RULE = ("instruction level: every operator tree of depth 1 (3 operators x all child sequences of length 2..3 over 4 base "
        "items) and depth 2 (3 operators x all ordered pairs over base items + depth-1 binary trees [quick: 3 base items]); thorough: every depth-3 tree combining a base item with a depth-2 binary tree over {mov,push} "
        "each alone and (depth 1, and depth 2 in thorough) in the context 'ret, T, ret' / 'T, ret'; operand level: every "
        "tree of depth 1..2 over 3 operand names placed as only operand item, before and after a plain operand item; every depth-1 tree over 4 operand names that are substrings of each other (ax/rax, r8/r8d); "
        "$deref level: every $or of 2..3 alternatives in each deref field (displacements positive and negative, with and without 0x, as YAML int); long-listing family: $and / $and_any_order / $or sequences whose only occurrence touches each 4096..65536 instruction boundary of listings up to 65539 (thorough 131075) instructions; wide/deep family: $or of 8/16/25 alternatives with the matching one first/middle/last, $and_any_order of 4 and 5 children (with duplicates) on every listing of length 4 / 5, nesting chains of depth 3..6; the same group (1 or 2 children, each operator) written twice in one rule with different repetition counts; x EVERY listing up to the bound over the "
        "family's near-miss alphabet. Oracle: reference matcher (union / sequence / permutations with each child used "
        "once): verdict, spans genuine and record aligned. Non-trivial = reference finds the rule or its first item "
        "matches somewhere.")
ASSUMPTIONS = ["$and/$and_any_order/$not inside a $deref field are not generated (the property names only alternatives there)"]
LEVEL_TEXT = ("All operator trees of the stated grammar to depth 2 at the three levels x all listings up to the bound; "
              "verdict and reported spans compared with the reference matcher. Exhaustive within bounds.")
LEVEL_NOTE = "Trusted: mc/refmodel.py operator semantics; listing formatter."

OPS = ["$and", "$or", "$and_any_order"]
BASE = ["mov", {"mov": ["rax"]}, "push", "ret"]
ALPHA_I = [("mov", ["%rax", "%rbx"]), ("mov", ["%rbx", "%rax"]), ("push", ["%rax"]), ("ret", [])]

OPN = ["rax", "rbx", "0x1"]
ALPHA_O = [("mov", ["%rax", "%rbx"]), ("mov", ["%rbx", "%rax"]), ("mov", ["$0x1", "%rax"]),
           ("mov", ["%rax", "%rbx", "%rcx"]), ("mov", ["%rax"]), ("mov", ["%rbx", "$0x1", "%rax"]), ("ret", [])]

OPN_SUB = ["ax", "rax", "r8", "r8d"]
ALPHA_OS = [("mov", ["%rax", "%rbx"]), ("mov", ["%r8", "%r8d"]), ("mov", ["%r8d", "%rax"]), ("mov", ["%rax", "%rax"]), ("mov", ["%r8d", "%r8d"]),
            ("mov", ["%ax", "%rax"]), ("mov", ["%rax", "%r8", "%r8d"]), ("mov", ["%r8d", "%rbx", "%r8d"]), ("mov", ["%r8"])]

ALPHA_D = [("mov", ["-0x10(%rax,%rbx,4)", "%rcx"]), ("mov", ["-0x8(%rax,%rbx,4)", "%rcx"]), ("mov", ["0x8(%rax,%rbx,4)", "%rcx"]), ("mov", ["0x8(%rbx,%rax,4)", "%rcx"]), ("mov", ["0x10(%rax,%rbx,8)", "%rcx"]),
           ("mov", ["(%rax)", "%rcx"]), ("mov", ["0x8(%rcx)", "%rcx"]), ("mov", ["%rax", "%rcx"])]


def bounds(tier):
    return {"L_instr": 4, "L_operand": 2, "L_deref": 1, "depth": 2}


def trees1(base, lens=(2, 3)):
    for op in OPS:
        for n in lens:
            for ch in itertools.product(base, repeat=n):
                yield {op: list(ch)}


def instr_rules(tier):
    rules = []
    d1 = list(trees1(BASE))
    for t in d1:
        for cname, pat in (("alone", [t]), ("mid", ["ret", t, "ret"]), ("pre", [t, "ret"])):
            rules.append(e1.RuleCase(f"I1/{cname}", pat, "instr", want=("verdict", "aligned", "genuine")))
    base2 = BASE if tier == "thorough" else BASE[:3]
    pool = list(base2) + list(trees1(base2, lens=(2,)))
    for op in OPS:
        for a, b in itertools.product(pool, repeat=2):
            if not (isinstance(a, dict) and next(iter(a)) in OPS) and not (isinstance(b, dict) and next(iter(b)) in OPS):
                continue  # depth-1 already covered
            t = {op: [a, b]}
            ctxs = (("alone", [t]),) if tier == "quick" else (("alone", [t]), ("mid", ["ret", t, "ret"]))
            for cname, pat in ctxs:
                rules.append(e1.RuleCase(f"I2/{cname}", pat, "instr", want=("verdict", "aligned", "genuine")))
    return rules


def operand_rules(tier):
    rules = []
    d1 = list(trees1(OPN))
    pool = list(OPN) + list(trees1(OPN, lens=(2,)))
    d2 = [{op: [a, b]} for op in OPS for a, b in itertools.product(pool, repeat=2)
          if isinstance(a, dict) or isinstance(b, dict)]
    # operand names that are substrings of each other (ax/rax, r8/r8d): one operand field can satisfy two children, so
    # "each child used exactly once" needs a real assignment of children to fields
    for t in trees1(OPN_SUB):
        rules.append(e1.RuleCase("O/sub", [{"mov": [t]}], "opsub", want=("verdict", "aligned")))
    for t in d1 + d2:
        for cname, ops in (("only", [t]), ("first", [t, "rax"]), ("last", ["rbx", t])):
            rules.append(e1.RuleCase(f"O/{cname}", [{"mov": ops}], "oper", cfgs=((False, False), (False, True)) if cname == "only" else ((False, False),),
                                     want=("verdict", "aligned")))
    return rules


def deref_rules(tier):
    rules = []
    regs, scales, offs = ["rax", "rbx", "%rcx"], [4, 8, "0x4"], ["0x8", "8", "0x10", "-0x10", "-8", 8, -8]
    fields = {"main_reg": regs, "register_multiplier": regs, "constant_multiplier": scales, "constant_offset": offs}
    full = {"main_reg": "rax", "register_multiplier": "rbx", "constant_multiplier": 4, "constant_offset": "0x8"}
    for f, vals in fields.items():
        for n in (2, 3):
            for alts in itertools.product(vals, repeat=n):
                d = dict(full)
                d[f] = [{"$or": list(alts)}]
                rules.append(e1.RuleCase(f"D/{f}", [{"mov": [{"$deref": d}, "rcx"]}], "deref", want=("verdict", "aligned")))
    # short forms
    for alts in itertools.product(["rax", "rcx", "rbx"], repeat=2):
        rules.append(e1.RuleCase("D/short1", [{"mov": [{"$deref": {"main_reg": [{"$or": list(alts)}]}}]}], "deref", want=("verdict",)))
        rules.append(e1.RuleCase("D/short2", [{"mov": [{"$deref": {"main_reg": [{"$or": list(alts)}], "constant_offset": "0x8"}}]}], "deref", want=("verdict",)))
    return rules


def wide_deep_rules(tier):
    """beyond depth 2 / 3 children: wide alternations, 4- and 5-child $and_any_order, nesting chains of depth 3..5"""
    rules = []
    W = ("verdict", "aligned", "genuine")
    junk = [f"zz{i}" for i in range(25)]
    for k in (8, 16, 25):
        for pos in (0, k // 2, k - 1):
            alts = list(junk[:k])
            alts[pos] = "push"
            rules.append(e1.RuleCase("wide/or", ["mov", {"$or": alts}, "ret"], "wd", want=W))
            rules.append(e1.RuleCase("wide/or_operand", [{"mov": [{"$or": [a if a != "push" else "rbx" for a in alts]}, "rax"]}], "wd", want=("verdict",)))
    four = ["mov", "push", "ret", {"mov": ["rbx"]}]
    rules.append(e1.RuleCase("wide/aao4", [{"$and_any_order": four}], "wd4", want=W))
    rules.append(e1.RuleCase("wide/aao4dup", [{"$and_any_order": ["mov", "push", "push", "ret"]}], "wd4", want=W))
    rules.append(e1.RuleCase("wide/aao5", [{"$and_any_order": ["mov", "push", "ret", "push", "mov"]}], "wd5", want=("verdict",)))
    # nesting chains
    inner = {"$or": ["push", "ret"]}
    chains = [inner]
    for op in ("$and", "$and_any_order", "$or", "$and", "$and_any_order"):
        prev = chains[-1]
        chains.append({op: ["mov", prev] if op != "$or" else [prev, {"$and": ["ret", "ret"]}]})
    for ch in chains[2:]:
        rules.append(e1.RuleCase("deep", [ch], "wd", want=W))
        rules.append(e1.RuleCase("deep", ["ret", ch], "wd", want=W))
    # the same group written twice in one rule with DIFFERENT repetition counts (and, over the run, in many rules compiled
    # one after the other in this process): what is built for a group must depend on its own `times`
    opt = {"min": 0, "max": 1}
    for op in OPS:
        for ch in (["mov"], ["mov", "push"], ["push", "mov"]):
            for t1, t2 in ((2, None), (None, 2), (opt, None), (None, opt), (2, opt), (opt, 2)):
                g1 = {op: list(ch), **({"times": t1} if t1 else {})}
                g2 = {op: list(ch), **({"times": t2} if t2 else {})}
                rules.append(e1.RuleCase("rep/twice", [g1, "ret", g2], "wd", want=W))
                rules.append(e1.RuleCase("rep/twice", [g1, g2, "ret"], "wd", want=W))
    aa = {"$and_any_order": ["mov", {"$and_any_order": ["push", {"$and_any_order": ["ret", "mov"]}]}]}
    rules.append(e1.RuleCase("deep/aao3", [aa], "wd4", want=W))
    return rules


def depth3_rules():
    """thorough: every depth-3 tree with one base child and one depth-2 binary tree over 2 base items, both child orders"""
    W = ("verdict", "aligned", "genuine")
    base = ["mov", "push"]
    d1 = [{op: [a, b]} for op in OPS for a in base for b in base]
    pool2 = base + d1
    d2 = [{op: [a, b]} for op in OPS for a in pool2 for b in pool2 if isinstance(a, dict) or isinstance(b, dict)]
    rules = []
    for op in OPS:
        for leaf in base + ["ret"]:
            for t in d2:
                rules.append(e1.RuleCase("I3", [{op: [leaf, t]}], "instr", want=W))
                rules.append(e1.RuleCase("I3", [{op: [t, leaf]}], "instr", want=W))
    return rules


def all_rules(tier):
    extra = depth3_rules() if tier == "thorough" else []
    return instr_rules(tier) + operand_rules(tier) + deref_rules(tier) + wide_deep_rules(tier) + extra


def shards(tier):
    return e1.std_shards(tier, 64, 256)


def build_lsets(h, tier):
    return {"instr": e1.ListingSet(h, ALPHA_I, 4), "oper": e1.ListingSet(h, ALPHA_O, 2),
            "deref": e1.ListingSet(h, ALPHA_D, 1), "opsub": e1.ListingSet(h, ALPHA_OS, 1), "wd": e1.ListingSet(h, ALPHA_I, 5 if tier == "quick" else 6),
            "wd4": e1.ListingSet(h, ALPHA_I, 4, minlen=4), "wd5": e1.ListingSet(h, ALPHA_I[:1] + ALPHA_I[2:], 5, minlen=5)}


LONGLIST = [([{"$and": ["mov", "push"]}, "ret"], [("mov", ["%rax", "%rbx"]), ("push", ["%rax"]), ("ret", [])]),
            ([{"$and_any_order": ["mov", "push"]}, {"$or": ["ret", "leave"]}], [("push", ["%rax"]), ("mov", ["%rax", "%rbx"]), ("ret", [])]),
            (["mov", {"$or": ["push", "pop"]}, "ret"], [("mov", ["%rax", "%rbx"]), ("pop", ["%rax"]), ("ret", [])])]


def run_shard(shard, tier, h, res, known):
    e1.run_long_family(h, res, known, shard, LONGLIST, [65600] if tier == "quick" else [4200, 8300, 32800, 65600, 131200], prop=ID)
    e1.run_rules(h, res, known, all_rules(tier), e1.get_lsets(h, tier, build_lsets), shard, prop=ID)


CONTROLS = [
    (["ret", {"$or": ["mov", "push"]}, "ret"], [("1", "ret", []), ("2", "push", ["%rax"]), ("3", "ret", [])], True),
    (["ret", {"$or": ["mov", "push"]}, "ret"], [("1", "ret", []), ("2", "ret", [])], False),
    ([{"$and_any_order": ["mov", "push"]}], [("1", "push", ["%rax"]), ("2", "mov", ["%rax", "%rbx"])], True),
    ([{"$and_any_order": ["mov", "push"]}], [("1", "push", ["%rax"]), ("2", "push", ["%rax"])], False),
    ([{"$and": ["mov", "push"]}], [("1", "push", ["%rax"]), ("2", "mov", ["%rax", "%rbx"])], False),
    ([{"mov": [{"$or": ["rbx", "0x1"]}, "rax"]}], [("1", "mov", ["$0x1", "%rax"])], True),
    ([{"mov": [{"$or": ["rbx", "0x1"]}, "rax"]}], [("1", "mov", ["%rax", "%rbx"])], False),
]


def controls(h):
    # the reference matcher's memoised capture-free fast path must agree with its generator semantics
    R = rm.Ref()
    alpha = [e1.norm_inst(str(i), m, o) for i, (m, o) in enumerate(ALPHA_I)]
    lists = [[(str(p),) + alpha[i][1:] for p, i in enumerate(idx)] for n in range(0, 4) for idx in itertools.product(range(len(alpha)), repeat=n)]
    for rc in instr_rules("quick")[::40] + wide_deep_rules("quick"):
        for L in lists[::9]:
            if {(i, j) for i in range(len(L) + 1) for j, _ in R.seq(rc.pattern, L, i, {})} != R.spans(rc.pattern, L):
                raise HarnessError(f"reference fast path disagrees with the generator semantics on {rc.pattern}")
    for pattern, att, expected in CONTROLS:
        norm = [e1.norm_inst(*x) for x in att]
        if rm.Ref().found(pattern, norm) != expected:
            raise HarnessError(f"reference matcher disagrees with property text on control {pattern}")


def replay(case, h):
    if case.get("family") == "longlisting":
        return e1.replay_long_case(case, h)
    return e1.replay_case(case, h, want=("verdict", "aligned", "genuine"))
