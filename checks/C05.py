"""C05  Capture groups bind consistently across a pattern."""
from __future__ import annotations

import itertools

from mc import e1, refmodel as rm
from mc.common import HarnessError

ID = "C05"
LEVEL = "exploration"
ENGINE = "E1"
TECHNIQUE = "bounded exhaustive enumeration of capture-group rules x listings on the real code vs reference matcher with binding environments"
RULE = ("families: (A) instruction-level captures: every item sequence of length 2..4 over {&a,&b,push} containing a "
        "capture, and every sequence with two or more captures preceded by each of 16 non-capturing items (repeated mnemonic, $and/$or/$not/$and_any_order with and without times, operand-level operators, $deref) on listings that start with instructions realising that item, later occurrences also inside "
        "$or/$not/$and-with-times; (B) operand-level captures: every pair of 'mov' items whose operand lists are drawn "
        "from {&x,&y,rax} (length 1..2), later occurrences inside operand-level $or/$not and in a following instruction; "
        "(C) prefix/extension operands (0x1/0x10, %r8/%r8d) as first, middle and last operand; (D) 11 and 25 distinct names, a register-family name as 11th name "
        "(back-references \\10, \\11) with every combination of bound values in the checking instruction; (E) [E4: two family names defined in both orders, with/without a preceding plain capture, names with an inner dot] register "
        "families &genreg/&indreg/&stackreg/&basereg: every (first-suffix, later-suffix) pair from {none,.64,.32,.16,.8h,"
        ".8l,.8H,.8L} x every pair of operands from all family register names plus look-alikes (0x1, %r8, other-family "
        "registers); (F) capture inside $deref fields. Each x EVERY listing of the family's bounded listing set. Oracle: "
        "reference matcher with environments (equality of bound text; fixed register table). Non-trivial = reference "
        "finds the rule or its first item matches somewhere. Recompile family: for every 5th rule, the regex the same Yaml2Regex object produces when asked a second time (same text, or the same results on every listing).")
ASSUMPTIONS = ["capture definitions lie on the executed-once spine (property scope)",
               "suffix-less register-family names are generated only as first occurrences"]
LEVEL_TEXT = ("All capture rules of the stated families x all listings of the family's bounded set; verdict (and alignment) "
              "compared with the reference matcher. Exhaustive within bounds.")
LEVEL_NOTE = "Trusted: mc/refmodel.py capture semantics and its register-family table (taken from the x86 register file)."

ALPHA_AB = [("mov", ["(%rax)", "%rbx"]), ("mov", ["%rax", "%rbx"]), ("mov", ["%rbx", "%rax"]), ("mov", ["%rax", "%rax"]), ("push", ["%rax"]),
            ("push", ["%rbx"]), ("ret", [])]
ALPHA_C = [("ret", []), ("push", ["$0x1"]), ("push", ["$0x10"]), ("push", ["%r8"]), ("push", ["%r8d"]), ("mov", ["$0x1", "%r8"]),
           ("mov", ["$0x10", "%r8d"]), ("mov", ["%r8", "$0x1"]), ("mov", ["%r8d", "$0x10"]), ("imul", ["$0x1", "%r8", "%r8d"]),
           ("imul", ["$0x10", "%r8d", "%r8"])]
W = ("verdict", "aligned", "addr")     # addr: the same rule under return_only_address (group numbering must not depend on the mode)


def bounds(tier):
    return {"L_AB": 3 if tier == "quick" else 4, "L_C": 2}


MOVAB, PUSHA, PUSHB, RET, MOVM = ("mov", ["%rax", "%rbx"]), ("push", ["%rax"]), ("push", ["%rbx"]), ("ret", []), ("mov", ["(%rax)", "%rbx"])
PREFIXES = [
    ({"push": {"times": 2}}, [PUSHA, PUSHB]), ({"$or": ["mov", "push"]}, [PUSHA]), ({"$not": ["ret"]}, [MOVAB]),
    ({"$and_any_order": ["mov", "push"]}, [PUSHA, MOVAB]), ({"mov": {"times": {"min": 0, "max": 1}}}, [MOVAB]),
    ({"$and": ["mov", "push"]}, [MOVAB, PUSHA]), ({"$and": ["mov", "push"], "times": 2}, [MOVAB, PUSHA, MOVAB, PUSHB]),
    ({"$or": ["mov", "push"], "times": 2}, [MOVAB, PUSHA]), ({"$not": ["ret"], "times": 2}, [MOVAB, PUSHA]),
    ({"$and_any_order": ["mov", "push"], "times": {"min": 1, "max": 2}}, [PUSHA, MOVAB, MOVAB, PUSHB]),
    ({"mov": ["rax"], "times": 2}, [MOVAB, MOVAB]), ({"mov": [{"$or": ["rax", "rbx"]}, {"$not": ["rcx"]}]}, [MOVAB]),
    ({"mov": [{"$and_any_order": ["rax", "rbx"]}]}, [MOVAB]), ({"mov": [{"$deref": {"main_reg": "rax"}}]}, [MOVM]),
    ({"mov": [{"$not": ["rcx"], "times": 2}]}, [MOVAB]), ({"mov": [{"$or": ["rax", "rcx"], "times": {"min": 1, "max": 2}}]}, [MOVAB]),
]


def fam_a(tier):
    rules = []
    items = ["&a", "&b", "push"]
    # non-capturing items of every kind in front of the capture definitions: none of them may add a numbered group.
    # Each prefix comes with instructions realising it, prepended to every listing (so the rule can actually match).
    for n in (2, 3, 4):
        for seq in itertools.product(items, repeat=n):
            if any(s.startswith("&") for s in seq):
                rules.append(e1.RuleCase("A", list(seq), "ab", want=W))
    for pi, (pre, _real) in enumerate(PREFIXES):
        for n in (2, 3):
            for seq in itertools.product(items, repeat=n):
                if sum(1 for s in seq if s.startswith("&")) >= 2:
                    rules.append(e1.RuleCase("Apre", [pre] + list(seq), f"abpre{pi}", want=W))
    for later in ({"$or": ["&a", "ret"]}, {"$not": ["&a"]}, {"$and": ["&a"], "times": 2}, {"$and_any_order": ["&a", "push"]},
                  {"$or": [{"$not": ["&a"]}, "&b"]}):
        for pat in (["&a", later], ["&a", "&b", later], ["&b", "&a", later, "&b"], ["&a", "push", later]):
            rules.append(e1.RuleCase("A2", pat, "ab", want=W))
    return rules


def fam_b(tier):
    rules = []
    names = ["&x", "&y", "rax"]
    oplists = [list(p) for n in (1, 2) for p in itertools.product(names, repeat=n)]
    for o1 in oplists:
        for o2 in oplists:
            if not any(str(s).startswith("&") for s in o1 + o2):
                continue
            rules.append(e1.RuleCase("B", [{"mov": o1}, {"mov": o2}], "ab", want=W))
            rules.append(e1.RuleCase("B", [{"mov": o1}, "push", {"mov": o2}], "ab", want=W))
    # operand-level operators in front of a capture definition inside the same operand list
    for front in ({"$not": ["rbx"]}, {"$or": ["rax", "rbx"]}, {"$and_any_order": ["rax"]}, {"$deref": {"main_reg": "rax"}}):
        rules.append(e1.RuleCase("B4", [{"mov": [front, "&x"]}, {"push": ["&x"]}], "ab", want=W))
        rules.append(e1.RuleCase("B4", [{"mov": [front, "&x"]}, {"mov": ["&x"]}], "ab", want=W))
    for later in ({"$or": ["&x", "rbx"]}, {"$not": ["&x"]}, {"$and_any_order": ["&x", "rbx"]}, {"$or": ["rbx", "&x"]}):
        rules.append(e1.RuleCase("B2", [{"push": ["&x"]}, {"mov": [later]}], "ab", want=W))
        rules.append(e1.RuleCase("B2", [{"push": ["&x"]}, {"mov": [later, "rax"]}], "ab", want=W))
        rules.append(e1.RuleCase("B2", [{"push": ["&x"]}, {"mov": ["rax", later]}], "ab", want=W))
        rules.append(e1.RuleCase("B2", [{"mov": ["&x", later]}], "ab", want=W))
    # instruction-level and operand-level names mixed
    for pat in (["&i", {"mov": ["&x", "&y"]}, "&i"], [{"push": ["&x"]}, "&i", {"push": ["&x"]}, "&i"],
                ["&i", {"push": ["&x"]}, "&i"], [{"mov": ["&x", "&x"]}, "&i", "&i"]):
        rules.append(e1.RuleCase("B3", pat, "ab", want=W))
    return rules


def fam_c(tier):
    rules = []
    for pat in ([{"push": ["&x"]}, {"push": ["&x"]}], [{"push": ["&x"]}, {"mov": ["&x"]}], [{"push": ["&x"]}, {"mov": ["&x", "r8"]}],
                [{"push": ["&x"]}, {"mov": ["r8", "&x"]}], [{"mov": ["&x", "&y"]}, {"mov": ["&x", "&y"]}],
                [{"mov": ["&x", "&y"]}, {"mov": ["&y", "&x"]}], [{"push": ["&x"]}, {"imul": ["&x"]}],
                [{"push": ["&x"]}, {"imul": ["0x1", "&x"]}], [{"push": ["&x"]}, {"imul": ["0x1", "r8", "&x"]}],
                [{"push": ["&x"]}, {"imul": ["&x", "&y", "&y"]}], ["&i", "&i"], [{"mov": ["&x", "&x"]}],
                # a capture followed by an item that fits a LATER operand than the adjacent one (capture must not grow over ',')
                [{"imul": ["&x", "%r8"]}], [{"imul": ["&x", "%r8d"]}], [{"imul": ["&x", "&y"]}, {"push": ["&y"]}],
                [{"imul": ["0x1", "&x", "%r8d"]}], [{"mov": ["&x", "0x1"]}], [{"imul": ["&x", "&x"]}],
                # a capture must bind a NON-EMPTY operand: the single empty operand field of an operand-less instruction is not one
                [{"ret": ["&x"]}], [{"ret": ["&x"]}, {"push": ["&x"]}], [{"push": ["&x"]}, {"ret": ["&x"]}], [{"push": ["&x", "&y"]}]):
        for cfg in ((False, False), (False, True)):
            rules.append(e1.RuleCase("C", pat, "c", cfgs=(cfg,), want=W))
    return rules


# ---- family D: 11 names
D_VALUES = ["%rax", "%rbx", "%rcx", "%rdx", "%rsi", "%rdi", "%r8", "%r9", "%r10", "%r11", "%r12"]


def fam_d_pattern(i, j):
    names = [f"&c{k}" for k in range(1, 12)]
    pat = [{"mov": [names[k], names[k + 1]]} for k in range(0, 10, 2)] + [{"push": [names[10]]}]
    pat.append({"mov": [names[i], names[j]]})
    return pat


def fam_d_listings(h):
    out = []
    base = [("mov", [D_VALUES[k], D_VALUES[k + 1]]) for k in range(0, 10, 2)] + [("push", [D_VALUES[10]])]
    for a in D_VALUES:
        for b in D_VALUES:
            out.append(base + [("mov", [a, b])])
    return out


# ---- family E: register families
FAM_REGS = {
    "&genreg": [p + r + s for r in "abcd" for p, s in (("r", "x"), ("e", "x"), ("", "x"), ("", "h"), ("", "l"))],
    "&indreg": [p + r + s for r in "sd" for p, s in (("r", "i"), ("e", "i"), ("", "i"), ("", "il"))],
    "&stackreg": ["rsp", "esp", "sp", "spl"],
    "&basereg": ["rbp", "ebp", "bp", "bpl"],
}
LOOKALIKES = ["$0x1", "%r8", "%r8d", "$0xa"]
SUFFIX_FIRST = [None, "64", "32", "16", "8h", "8l", "8H", "8L"]
SUFFIX_LATER = ["64", "32", "16", "8h", "8l", "8H", "8L"]


def fam_e(tier):
    rules = []
    for fam in FAM_REGS:
        for s1 in SUFFIX_FIRST:
            n1 = f"{fam}-1" + (f".{s1}" if s1 else "")
            if fam != "&genreg" and s1 and s1.lower() == "8h":
                continue  # no such width in these families (rejected loudly; C17 territory)
            rules.append(e1.RuleCase(f"E1/{fam}", [{"mov": [n1, "rsi"]}], "e_" + fam, want=W))
            for s2 in SUFFIX_LATER:
                n2 = f"{fam}-1.{s2}"
                if fam != "&genreg" and s2.lower() == "8h":
                    continue  # no such width in these families
                if fam != "&genreg" and s1 and s1.lower() == "8h":
                    continue
                rules.append(e1.RuleCase(f"E2/{fam}", [{"mov": [n1, "rsi"]}, {"push": [n2]}], "e_" + fam, want=W))
                rules.append(e1.RuleCase(f"E3/{fam}", [{"mov": [n1, n2]}], "e2_" + fam, want=W))
    # two independent family names, defined in both orders and with a plain capture shifting the group numbers, so that
    # one name owns different group numbers in different rules of the same process; names with an inner dot
    for n1, n2 in (("&genreg-1", "&genreg-2"), ("&genreg-2", "&genreg-1"), ("&genreg.1", "&genreg.2"), ("&genreg.2", "&genreg.1")):
        for pre in ([], [{"push": ["&p"]}]):
            rules.append(e1.RuleCase("E4", pre + [{"mov": [n1 + ".64", n2 + ".64"]}, {"mov": [n2 + ".32", n1 + ".32"]}], "e4", want=W))
            rules.append(e1.RuleCase("E4", pre + [{"mov": [n1 + ".64", n2 + ".64"]}, {"mov": [n1 + ".32", n2 + ".32"]}], "e4", want=W))
            rules.append(e1.RuleCase("E4", pre + [{"mov": [n1, n2 + ".64"]}, {"mov": [n1 + ".32", n2 + ".32"]}], "e4", want=W))
    return rules


def fam_e_listings(fam):
    regs = ["%" + r for r in FAM_REGS[fam]]
    other = [("%rsi" if fam != "&indreg" else "%rax"), ("%rbp" if fam != "&basereg" else "%rsp")]
    vals = regs + LOOKALIKES + other
    l1 = [[("mov", [a, "%rsi"]), ("push", [b])] for a in vals for b in vals]
    l2 = [[("mov", [a, b])] for a in vals for b in vals]
    return l1, l2


def fam_f(tier):
    rules = []
    # register-family captures inside $deref fields (followed by '+', '*' or ']' instead of the field terminator)
    for pat in ([{"mov": [{"$deref": {"main_reg": "&genreg-1.64", "constant_offset": "0x8"}}]}, {"push": ["&genreg-1.64"]}],
                [{"mov": [{"$deref": {"main_reg": "&genreg-1.64"}}]}, {"push": ["&genreg-1.64"]}],
                [{"mov": [{"$deref": {"main_reg": "&genreg-1.64", "register_multiplier": "&genreg-2.64", "constant_multiplier": 4, "constant_offset": "0x8"}}]},
                 {"push": ["&genreg-2.64"]}],
                [{"push": ["&genreg-1.64"]}, {"mov": [{"$deref": {"main_reg": "&genreg-1.64", "constant_offset": "0x8"}}]}],
                [{"push": ["&genreg-1.64"]}, {"mov": [{"$deref": {"main_reg": "rax", "register_multiplier": "&genreg-1.64", "constant_multiplier": 4,
                                                                   "constant_offset": "0x8"}}]}]):
        rules.append(e1.RuleCase("F3", pat, "f", want=("verdict",)))
    for pat in ([{"mov": [{"$deref": {"main_reg": "&r"}}]}], [{"mov": [{"$deref": {"main_reg": "&r"}}, "rbx"]}],
                [{"mov": [{"$deref": {"main_reg": "&r"}}]}, {"push": ["&r"]}],       # a one-field $deref defining a capture: operands with more components must not match
                [{"mov": [{"$deref": {"main_reg": "rax", "constant_offset": "&k"}}]}],
                [{"mov": [{"$deref": {"main_reg": "&r", "constant_offset": "0x8"}}, "&r"]}],
                [{"mov": [{"$deref": {"main_reg": "rax", "constant_offset": "&k"}}]}, {"push": ["&k"]}],
                [{"push": ["&r"]}, {"mov": [{"$deref": {"main_reg": "&r"}}]}],
                [{"push": ["&r"]}, {"mov": [{"$deref": {"main_reg": "&r", "constant_offset": "0x8"}}, "&r"]}]):
        rules.append(e1.RuleCase("F", pat, "f", want=("verdict",)))
    # two and three capture definitions inside one $deref, in every key order (YAML order != emission order)
    import itertools as it
    fields = {"main_reg": "&r", "constant_offset": "&k", "register_multiplier": "&b", "constant_multiplier": 4}
    for keys in (("main_reg", "constant_offset"), ("main_reg", "constant_offset", "register_multiplier", "constant_multiplier")):
        for perm in it.permutations(keys):
            d = {k: fields[k] for k in perm}
            for later in ({"push": ["&k"]}, {"push": ["&r"]}, {"push": ["&b"]} if "register_multiplier" in keys else {"push": ["&k"]}):
                rules.append(e1.RuleCase("F2", [{"mov": [{"$deref": d}]}, later], "f", want=("verdict",)))
    return rules


ALPHA_F = [("mov", ["0x8(%rax,%rbx,4)", "%rax"]), ("mov", ["0x8(%rax)", "%rax"]), ("mov", ["0x8(%rax)", "%rbx"]), ("mov", ["0x8(%rbx)", "%rbx"]), ("mov", ["(%rax)", "%rax"]),
           ("push", ["%rax"]), ("push", ["%rbx"]), ("push", ["$0x8"]), ("push", ["$8"]), ("mov", ["0x10(%rax)", "%rax"])]


D25 = ["%rax", "%rbx", "%rcx", "%rdx", "%rsi", "%rdi", "%r8", "%r9", "%r10", "%r11", "%r12", "%r13", "%r14", "%r15", "%eax", "%ebx", "%ecx",
       "%edx", "%esi", "%edi", "%r8d", "%r9d", "%r10d", "%r11d", "%r12d"]


def fam_d_family_late():
    """a register-family name whose group number is >= 10 (ten plain captures first), with later occurrences at other widths"""
    names = [f"&n{k}" for k in range(1, 11)]
    pre = [{"mov": [names[k], names[k + 1]]} for k in range(0, 10, 2)]
    rules = []
    for first, later in (("&genreg-9.64", "&genreg-9.32"), ("&genreg-9", "&genreg-9.16"), ("&indreg-9.64", "&indreg-9.32"), ("&stackreg-9.64", "&stackreg-9.32")):
        rules.append(e1.RuleCase("D10fam", pre + [{"push": [first]}, {"push": [later]}], "d10fam", want=W))
        rules.append(e1.RuleCase("D10fam", pre + [{"push": [first]}, {"mov": [names[0], later]}], "d10fam", want=W))
    return rules


def fam_d10_listings():
    base = [("mov", [D25[k], D25[k + 1]]) for k in range(0, 10, 2)]
    regs = ["%rax", "%eax", "%ax", "%rbx", "%ebx", "%rsi", "%esi", "%rdi", "%rsp", "%esp", "%r8"]
    out = [base + [("push", [a]), ("push", [b])] for a in regs for b in regs]
    out += [base + [("push", [a]), ("mov", ["%rax", b])] for a in regs for b in regs]
    return out


def fam_d25():
    """25 distinct operand captures (\\1..\\25), then an instruction checking names i and j"""
    names = [f"&n{k}" for k in range(1, 26)]
    base_pat = [{"mov": [names[k], names[k + 1]]} for k in range(0, 24, 2)] + [{"push": [names[24]]}]
    rules = []
    for i, j in ((0, 1), (1, 0), (9, 10), (10, 9), (1, 11), (11, 1), (24, 0), (19, 20), (2, 22), (22, 2), (12, 13), (23, 24)):
        rules.append(e1.RuleCase("D25", base_pat + [{"mov": [names[i], names[j]]}], "d25", want=W))
    return rules


def fam_d25_listings():
    base = [("mov", [D25[k], D25[k + 1]]) for k in range(0, 24, 2)] + [("push", [D25[24]])]
    probe = [0, 1, 2, 9, 10, 11, 12, 13, 19, 20, 22, 23, 24]
    return [base + [("mov", [D25[a], D25[b]])] for a in probe for b in probe]


def fam_d(tier):
    return [e1.RuleCase("D", fam_d_pattern(i, j), "d", want=W) for i in range(11) for j in range(11)
            if tier == "thorough" or (i in (0, 1, 9, 10) or j in (0, 9, 10))]


def all_rules(tier):
    return fam_a(tier) + fam_b(tier) + fam_c(tier) + fam_d(tier) + fam_d25() + fam_d_family_late() + fam_e(tier) + fam_f(tier)


def shards(tier):
    return e1.std_shards(tier, 64, 256)


def build_lsets(h, tier):
    import itertools as it
    ls = {"ab": e1.ListingSet(h, ALPHA_AB, bounds(tier)["L_AB"]), "c": e1.ListingSet(h, ALPHA_C, 2),
          "d": e1.ExplicitListingSet(h, fam_d_listings(h)), "d25": e1.ExplicitListingSet(h, fam_d25_listings()), "d10fam": e1.ExplicitListingSet(h, fam_d10_listings()), "f": e1.ListingSet(h, ALPHA_F, 2)}
    tails = [[ALPHA_AB[i] for i in idx] for n in range(0, 4) for idx in it.product(range(len(ALPHA_AB)), repeat=n)]
    for pi, (_pre, real) in enumerate(PREFIXES):
        ls[f"abpre{pi}"] = e1.ExplicitListingSet(h, [list(real) + t for t in tails] + [[RET] + list(real) + t for t in tails[::5]])
    for fam in FAM_REGS:
        l1, l2 = fam_e_listings(fam)
        ls["e_" + fam] = e1.ExplicitListingSet(h, l1)
        ls["e2_" + fam] = e1.ExplicitListingSet(h, l2)
    g = ["%rax", "%rbx", "%eax", "%ebx", "%ax"]
    l4 = [[("mov", [a, b]), ("mov", [c, d])] for a in g[:2] for b in g[:2] for c in g for d in g]
    ls["e4"] = e1.ExplicitListingSet(h, l4 + [[("push", ["%rax"])] + x for x in l4])
    return ls


def run_recompile(shard, tier, h, res, known, rules, lsets):
    """every 5th rule: the regex one Yaml2Regex object produces when asked a second time (capture names are registered
    while the first one is produced) - same text, or else the same results on every listing of the rule's set"""
    from jasm.jasm_regex.yaml2regex import Yaml2Regex
    from mc.common import make_rule_doc
    for ri in range(shard["lo"] * 5, len(rules), shard["n"] * 5):
        rc = rules[ri]
        doc = make_rule_doc(rc.pattern)
        res.evaluations += 1
        res.nontrivial += 1
        case = {"clause": "recompile", "family": "recompile/" + rc.family, "rule": doc, "size": len(str(rc.pattern))}
        try:
            y = Yaml2Regex(h.rule_file(doc))
            t1 = y.produce_regex()
        except Exception:  # noqa  (rules that do not compile are run_rules' subject)
            continue
        try:
            t2 = y.produce_regex()
        except Exception as e:  # noqa
            res.fail({**case, "expected": "the same regex again", "observed": repr(e)}, known)
            continue
        if t1 == t2:
            continue
        m1, m2 = h.mop(doc), h.mop(doc)
        if not isinstance(getattr(m2, "regex_rule", None), str):
            res.count("recompile_text_differs_undecided")
            continue
        m2.regex_rule = t2
        for idx, path, norm, att in lsets[rc.lset]:
            try:
                same = h.match(m1, path) == h.match(m2, path)
            except Exception as e:  # noqa
                same = False
            if not same:
                res.fail({**case, "listing": [[a, m, list(o)] for a, m, o in att], "expected": t1[:300], "observed": t2[:300]}, known)
                break
        else:
            res.count("recompile_text_differs_but_equivalent")


def run_shard(shard, tier, h, res, known):
    rules, lsets = all_rules(tier), e1.get_lsets(h, tier, build_lsets)
    run_recompile(shard, tier, h, res, known, rules, lsets)
    e1.run_rules(h, res, known, rules, lsets, shard, prop=ID)


CONTROLS = [
    ([{"push": ["&x"]}, {"push": ["&x"]}], [("1", "push", ["%rax"]), ("2", "push", ["%rax"])], True),
    ([{"push": ["&x"]}, {"push": ["&x"]}], [("1", "push", ["%rax"]), ("2", "push", ["%rbx"])], False),
    ([{"push": ["&x"]}, {"push": ["&x"]}], [("1", "push", ["$0x1"]), ("2", "push", ["$0x10"])], False),
    (["&i", "&i"], [("1", "push", ["%rax"]), ("2", "push", ["%rax"])], True),
    (["&i", "&i"], [("1", "push", ["%rax"]), ("2", "push", ["%rbx"])], False),
    ([{"mov": ["&genreg-1.64", "rsi"]}, {"push": ["&genreg-1.32"]}], [("1", "mov", ["%rax", "%rsi"]), ("2", "push", ["%eax"])], True),
    ([{"mov": ["&genreg-1.64", "rsi"]}, {"push": ["&genreg-1.32"]}], [("1", "mov", ["%rax", "%rsi"]), ("2", "push", ["%ebx"])], False),
    ([{"mov": ["&genreg-1.64", "rsi"]}, {"push": ["&genreg-1.32"]}], [("1", "mov", ["%eax", "%rsi"]), ("2", "push", ["%eax"])], False),
    ([{"mov": ["&genreg-1.8H", "rsi"]}], [("1", "mov", ["%ah", "%rsi"])], True),
    ([{"mov": ["&genreg-1.8H", "rsi"]}], [("1", "mov", ["%al", "%rsi"])], False),
]


def controls(h):
    for pattern, att, expected in CONTROLS:
        norm = [e1.norm_inst(*x) for x in att]
        if rm.Ref().found(pattern, norm) != expected:
            raise HarnessError(f"reference matcher disagrees with property text on control {pattern} {att}")


def replay(case, h):
    if case.get("clause") == "recompile":
        from jasm.jasm_regex.yaml2regex import Yaml2Regex
        y = Yaml2Regex(h.rule_file(case["rule"]))
        t1 = y.produce_regex()
        try:
            t2 = y.produce_regex()
        except Exception as e:  # noqa
            return True, repr(e)
        return t1 != t2, f"second regex equal: {t1 == t2}"
    return e1.replay_case(case, h, want=W)
