"""C04  $not consumes exactly one instruction (or operand) at which its argument fails."""
from __future__ import annotations

import itertools

from mc import e1, refmodel as rm
from mc.common import HarnessError

ID = "C04"
LEVEL = "exploration"
ENGINE = "E1"
TECHNIQUE = "bounded exhaustive enumeration of $not placements x arguments x listings on the real code vs reference matcher"
RULE = ("instruction level: $not[X] for X in {plain item, item with operands, $or, $and of two (X spans 2 instructions), "
        "$and_any_order, $not (double negation), nested $or-of-$and} in leading / inner / trailing position, repeated "
        "(times 2, {1,2}, {0,1}), two $not in a row, inside $or and $and, with plain neighbours from a 3-item pool, a repeated $not referenced twice through a YAML alias, two matcher objects of one rule under different flag settings built before either is used; operand "
        "level: $not[x] for x in {name, $or of names, $and of two names} as only / first / middle / last operand item with "
        "plain neighbours, all 4 flag settings for the single-name forms; $not meeting capture groups (captures defined after "
        "one or two $not items, back-references inside the argument of a $not at instruction and operand level); x EVERY listing up to the bound (length 4 "
        "instruction level over 4 instructions; length 2 operand level over 10 instructions with 0..3 operands, incl. operand texts with braces and '*'). Oracle: "
        "reference matcher - verdict, spans genuine and record aligned. Non-trivial = reference finds the rule or its "
        "first item matches somewhere.")
ASSUMPTIONS = ["operand-level $not against the single empty operand field of an operand-less instruction is treated as "
               "'one operand' (the property does not say; reference and implementation agree)"]
LEVEL_TEXT = ("All $not rules of the stated grammar x all listings up to the bound; verdict and reported spans compared with "
              "the reference matcher. Exhaustive within bounds.")
LEVEL_NOTE = "Trusted: mc/refmodel.py $not semantics (exactly one instruction/operand at which the argument has no match)."

ALPHA_I = [("mov", ["%rax", "%rbx"]), ("mov", ["%rbx", "%rax"]), ("push", ["%rax"]), ("ret", []),
           ("rex.W", []),   # a mnemonic objdump prints that is not a word (also .byte, rex.WRB, ...)
           ("vpermil2ps", ["$0x0", "%xmm3", "%xmm2", "%xmm1", "%xmm0"])]   # five operands
ALPHA_O = [("mov", ["%rax", "%rbx"]), ("mov", ["%rbx", "%rax"]), ("mov", ["$0x1", "%rax"]),
           ("mov", ["%rax", "%rbx", "%rcx"]), ("mov", ["%rax"]), ("mov", ["%rbx", "$0x1", "%rax"]), ("mov", ["%rax", "%rax"]),
           ("ret", []), ("vmovaps", ["%zmm1{%k1}{z}", "%rbx"]), ("vmovaps", ["%rax", "%k2{%k3}", "*%rbx"])]   # operand texts with { } *

ARGS_I = ["mov", {"mov": ["rax"]}, "push", {"$or": ["mov", "ret"]}, {"$and": ["mov", "push"]}, {"$and": ["push", "ret"]},
          {"$and_any_order": ["mov", "push"]}, {"$not": ["mov"]}, {"$or": [{"$and": ["mov", "mov"]}, "ret"]},
          {"mov": ["rbx", "rax"]}]
NEIGH = ["mov", "push", "ret"]


def bounds(tier):
    return {"L_instr": 4 if tier == "quick" else 5, "L_operand": 2}


def instr_rules(tier):
    W = ("verdict", "aligned", "genuine")
    rules = []
    for X in ARGS_I:
        n = {"$not": [X]}
        pats = [[n]]
        for a in NEIGH:
            pats += [[n, a], [a, n]]
            for b in NEIGH:
                pats.append([a, n, b])
        for t in (2, {"min": 1, "max": 2}, {"min": 0, "max": 1}):
            nt = {"$not": [X], "times": t}
            pats += [[nt], [nt, "ret"], ["mov", nt], ["mov", nt, "ret"]]
            if t == 2:      # the SAME mapping object twice: written by YAML as an anchor and an alias
                pats += [[nt, "ret", nt], ["push", nt, nt]]
        pats += [[n, n], [n, {"$not": ["ret"]}], [{"$not": ["push"]}, n, "ret"]]
        pats += [[{"$or": [n, "ret"]}], [{"$or": [n, "ret"]}, "push"], [{"$and": [n, "push"]}], ["mov", {"$and": [n, n]}]]
        for p in pats:
            rules.append(e1.RuleCase("I", p, "instr", want=W))
    return rules


def operand_rules(tier):
    rules = []
    names = ["rax", "rbx", "0x1"]
    xs = [(x, True) for x in names] + [({"$or": [a, b]}, False) for a, b in itertools.permutations(names, 2)] + \
         [({"$and": ["rax", "rbx"]}, False), ({"$not": ["rax"]}, False)]
    for x, allcfg in xs:
        n = {"$not": [x]}
        forms = [[n]]
        for a in names:
            forms += [[n, a], [a, n]]
            for b in names[:2]:
                forms.append([a, n, b])
        forms += [[n, n], [{"$or": [n, "0x1"]}], ["rax", {"$or": [n, "rbx"]}]]
        for ops in forms:
            cfgs = e1.CONFIGS if allcfg and len(ops) <= 2 else ((False, False),)
            for ctx in ([{"mov": ops}], [{"mov": ops}, "ret"]):
                rules.append(e1.RuleCase("O", ctx, "oper", cfgs=cfgs, want=("verdict", "aligned")))
    return rules


def capture_rules(tier):
    """$not meets capture groups: captures defined after one or two $not items (group numbering), and back-references
    inside the argument of a $not (the argument must fail / match for the captured text)"""
    W = ("verdict", "aligned", "genuine")
    cap2 = [{"mov": ["&a", "&b"]}, {"mov": ["&b", "&a"]}]
    rules = []
    for X in ("mov", "push", {"$or": ["push", "ret"]}, {"$and": ["mov", "push"]}, {"mov": ["rbx", "rax"]}):
        n = {"$not": [X]}
        pats = [[n] + cap2, [n, n] + cap2, [cap2[0], n, cap2[1]], cap2 + [n], [{"$not": [X], "times": {"min": 0, "max": 2}}] + cap2,
                [n, {"push": ["&r"]}, {"$not": [{"push": ["&r"]}]}], [{"$or": [n, "ret"]}] + cap2]
        for p in pats:
            rules.append(e1.RuleCase("IC", p, "instr", want=W))
    back = [[{"mov": ["&a", "&b"]}, {"$not": [{"mov": ["&a", "&b"]}]}], [{"mov": ["&a", "&b"]}, {"$not": [{"mov": ["&b", "&a"]}]}],
            [{"mov": ["&a", "&b"]}, {"$not": [{"mov": ["&b", "&a"]}]}, "ret"], [{"mov": ["&a", "&b"]}, {"$not": [{"push": ["&a"]}]}],
            [{"mov": ["&a", "&b"]}, {"$not": [{"push": ["&b"]}]}], [{"push": ["&r"]}, {"$not": [{"mov": ["&r"]}]}, "ret"],
            ["&i", {"$not": ["&i"]}], ["&i", {"$not": ["&i"]}, "&i"], [{"$not": ["ret"]}, "&i", {"$not": ["&i"]}],
            [{"mov": ["&a", "&b"]}, {"mov": [{"$not": ["&a"]}, "&a"]}], [{"mov": ["&a", "&b"]}, {"mov": [{"$not": ["&b"]}]}]]
    for p in back:
        rules.append(e1.RuleCase("IC", p, "instr", want=W))
    return rules


def all_rules(tier):
    return instr_rules(tier) + operand_rules(tier) + capture_rules(tier)


def shards(tier):
    return e1.std_shards(tier, 64, 256)


def build_lsets(h, tier):
    return {"instr": e1.ListingSet(h, ALPHA_I, bounds(tier)["L_instr"]), "oper": e1.ListingSet(h, ALPHA_O, 2)}


LONGLIST = [(["mov", {"$not": ["mov"]}, "ret"], [("mov", ["%rax", "%rbx"]), ("push", ["%rax"]), ("ret", [])]),
            ([{"$not": ["nop"]}, {"$not": ["nop"]}], [("mov", ["%rax", "%rbx"]), ("push", ["%rax"])]),
            (["push", {"$not": [{"$and": ["nop", "nop"]}]}, "ret"], [("push", ["%rax"]), ("nop", []), ("ret", [])])]


INTERLEAVE_RULES = [[{"$not": ["ov"]}, "push"], [{"$not": [{"mov": ["rax"]}]}, "ret"], [{"mov": [{"$not": ["ax"]}, "rbx"]}], ["mov", {"$not": ["pus"]}]]


def run_shard(shard, tier, h, res, known):
    e1.run_interleaved(shard, h, res, known, INTERLEAVE_RULES, e1.get_lsets(h, tier, build_lsets)["instr"])
    e1.run_long_family(h, res, known, shard, LONGLIST, [32800] if tier == "quick" else [8300, 32800, 65600], prop=ID)
    e1.run_rules(h, res, known, all_rules(tier), e1.get_lsets(h, tier, build_lsets), shard, prop=ID)


CONTROLS = [
    ([{"$not": ["mov"]}, "push"], [("1", "ret", []), ("2", "push", ["%rax"])], True),
    ([{"$not": ["mov"]}, "push"], [("1", "mov", ["%rax", "%rbx"]), ("2", "push", ["%rax"])], False),
    ([{"$not": [{"$and": ["mov", "push"]}]}, "push"], [("1", "mov", ["%rax", "%rbx"]), ("2", "push", ["%rax"])], False),
    ([{"$not": [{"$and": ["mov", "push"]}]}, "ret"], [("1", "mov", ["%rax", "%rbx"]), ("2", "ret", [])], True),
    ([{"mov": [{"$not": ["rbx"]}, "rbx"]}], [("1", "mov", ["%rax", "%rbx"])], True),
    ([{"mov": [{"$not": ["rax"]}, "rbx"]}], [("1", "mov", ["%rax", "%rbx"])], False),
    ([{"mov": [{"$not": ["rbx"]}, "rcx"]}], [("1", "mov", ["%rax", "%rbx", "%rcx"])], False),
]


def controls(h):
    for pattern, att, expected in CONTROLS:
        norm = [e1.norm_inst(*x) for x in att]
        if rm.Ref().found(pattern, norm) != expected:
            raise HarnessError(f"reference matcher disagrees with property text on control {pattern}")


def replay(case, h):
    if case.get("family") == "interleave":
        return e1.replay_interleaved(case, h)
    if case.get("family") == "longlisting":
        return e1.replay_long_case(case, h)
    return e1.replay_case(case, h, want=("verdict", "aligned", "genuine"))
