"""C16  Only the instruction sequence matters, not how the listing is presented."""
from __future__ import annotations

import itertools

from mc import e1, refmodel as rm
from mc.common import HarnessError, fmt_line, make_rule_doc

ID = "C16"
LEVEL = "exploration"
ENGINE = "E2"
TECHNIQUE = "bounded exhaustive enumeration of listings x presentation edits (every single edit at every position, every pair of edit kinds) on the real parser/consumer; relational oracle: stream and result lists identical before/after"
RULE = ("EVERY listing of length 1..L over a 6-instruction alphabet (0-3 operands, direct branch target, memory operand, "
        "operand-less) x EVERY single presentation edit at EVERY position: label line inserted/removed/renamed (names with "
        "spaces, commas, parentheses), blank line, section header, elision line '\\t...', file-format header dropped, "
        "<sym+off> annotation added/changed/removed (incl. C++-style names with ', ' and '|'), '# comment' added (also on "
        "operand-less instructions), indentation 0..8, raw-byte column 1..7 bytes with different values, byte-continuation "
        "line inserted; plus EVERY pair of edit kinds at the first two positions. Oracle (real code vs real code): the "
        "instruction stream and the all-matches result lists of 8 fixed rules are identical for the edited and the "
        "canonical presentation, also under a rule with valid_addr_range and a full-match flag (which installs the optional instruction observer). Non-trivial = every edited listing (each differs textually from the canonical one).")
ASSUMPTIONS = ["presentation edits keep objdump's line syntax (TAB-separated address / bytes / text); arbitrary text is C08's subject"]
LEVEL_TEXT = ("All listings up to the bound x all single edits at all positions and all pairs of edit kinds; stream and results "
              "compared with the canonical presentation. Exhaustive within bounds.")
LEVEL_NOTE = "No reference model needed beyond the formatter: relational comparison of two runs of the real code."

ALPHA = [("mov", ["%rax", "%rbx"]), ("call", ["401030"]), ("ret", []), ("mov", ["0x8(%rax,%rbx,4)", "%rcx"]),
         ("imul", ["$0x10", "%rax", "%rbx"]), ("push", ["%rax"])]
ADDRS = ["401000", "401003", "401008", "40100c", "401013"]
RULES = [["mov"], [{"mov": ["rax"]}], ["call"], [{"call": ["401030"]}], ["ret"], [{"$not": ["ret"]}, "ret"], ["&i", "&i"],
         [{"mov": [{"$deref": {"main_reg": "rax", "register_multiplier": "rbx", "constant_multiplier": 4, "constant_offset": "0x8"}}]}]]

CONF2 = {"valid_addr_range": {"min": "401000", "max": "401fff"}, "mnemonics-full-match": True}
HEADER = ["", "a.out:     file format elf64-x86-64", "", "", "Disassembly of section .text:", ""]
LABELS = ["f", "main", "foo(int, char)", "a|b", "x::y", "_Z3fooi.cold"]
ANNOTS = ["f", "f+0x10", "foo(int, char)+0x4", "a|b::c,d", "main-0x8"]
COMMENTS = ["404010 <x+0x8>", "x", "a,b|c::d", "0x10"]


def bounds(tier):
    return {"L_listing_len": 3 if tier == "quick" else 4}


class Pres:
    """presentation of one listing: per-line parameters + extra lines"""

    def __init__(self, n):
        self.header = True
        self.label0 = "f"
        self.line = [dict(indent=2, nbytes=3, annot=None, comment=None, byteseed=0) for _ in range(n)]
        self.before = [[] for _ in range(n + 1)]   # extra raw lines inserted before instruction i (i==n: at the end)

    def render(self, insts):
        out = list(HEADER) if self.header else []
        if self.label0 is not None and insts:
            out.append(f"{int(insts[0][0], 16):016x} <{self.label0}>:")
        for i, (a, m, o) in enumerate(insts):
            out += self.before[i]
            p = self.line[i]
            l = fmt_line(a, m, o, indent=p["indent"], nbytes=p["nbytes"], annot=p["annot"], comment=p["comment"])
            if p["byteseed"]:
                head, byts, rest = l.split("\t", 2)
                byts = " ".join("%02x" % ((int(b, 16) + p["byteseed"]) & 0xFF) for b in byts.split()) .ljust(20) + " "
                l = "\t".join([head, byts, rest])
            out.append(l)
        out += self.before[len(insts)]
        return "\n".join(out) + "\n"


def edits_at(i, inst):
    """all single edits applicable at instruction position i: list of (name, fn(pres))"""
    e = []
    for lab in LABELS:
        e.append((f"label:{lab}", lambda p, lab=lab: p.before[i].append(f"{0x401000 + i:016x} <{lab}>:")))
    e.append(("blank", lambda p: p.before[i].append("")))
    e.append(("blank2", lambda p: p.before[i].extend(["", ""])))
    e.append(("section", lambda p: p.before[i].extend(["", "Disassembly of section .fini:", ""])))
    e.append(("elision", lambda p: p.before[i].append("\t...")))
    e.append(("cont", lambda p: p.before[i + 1].insert(0, f"  {0x401100 + i:x}:\t00 00 00 ")))
    e.append(("cont7", lambda p: p.before[i + 1].insert(0, f"  {0x401100 + i:x}:\t00 11 22 33 44 55 66 ")))
    for ind in range(0, 9):
        if ind != 2:
            e.append((f"indent{ind}", lambda p, ind=ind: p.line[i].update(indent=ind)))
    for nb in range(1, 8):
        if nb != 3:
            e.append((f"bytes{nb}", lambda p, nb=nb: p.line[i].update(nbytes=nb)))
    for seed in (1, 0x5b, 0xb8):
        e.append((f"bytevals{seed}", lambda p, seed=seed: p.line[i].update(byteseed=seed)))
    if inst[2]:
        for an in ANNOTS:
            e.append((f"annot:{an}", lambda p, an=an: p.line[i].update(annot=an)))
    for c in COMMENTS:
        e.append((f"comment:{c}", lambda p, c=c: p.line[i].update(comment=c)))
    return e


def global_edits():
    return [("noheader", lambda p: setattr(p, "header", False)), ("nolabel", lambda p: setattr(p, "label0", None)),
            ("label0:main", lambda p: setattr(p, "label0", "foo(int, char)")),
            ("tail-blank", lambda p: p.before[-1].extend(["", ""])), ("tail-elision", lambda p: p.before[-1].append("\t..."))]


def shards(tier):
    return e1.std_shards(tier, 32, 128)


_MOPS = {}


def run_shard(shard, tier, h, res, known):
    L = bounds(tier)["L_listing_len"]
    listings = [idx for n in range(1, L + 1) for idx in itertools.product(range(len(ALPHA)), repeat=n)]
    mops = [h.mop(make_rule_doc(r)) for r in RULES]
    for li in range(shard["lo"], len(listings), shard["n"]):
        idx = listings[li]
        insts = [(ADDRS[p], ALPHA[i][0], ALPHA[i][1]) for p, i in enumerate(idx)]
        base_text = Pres(len(insts)).render(insts)
        bp = h.write("base.s", base_text)
        cases = []
        for i in range(len(insts)):
            for name, fn in edits_at(i, insts[i]):
                cases.append(((f"{name}@{i}",), [fn]))
        for name, fn in global_edits():
            cases.append(((name,), [fn]))
        if len(insts) >= 2:   # every pair of edit kinds at positions 0 and 1
            e0, e1_ = edits_at(0, insts[0]), edits_at(1, insts[1])
            kinds0 = {}
            for n, f in e0:
                kinds0.setdefault(n.split(":")[0].rstrip("0123456789"), (n, f))
            kinds1 = {}
            for n, f in e1_:
                kinds1.setdefault(n.split(":")[0].rstrip("0123456789"), (n, f))
            for (n0, f0) in kinds0.values():
                for (n1, f1) in kinds1.values():
                    cases.append(((n0 + "@0", n1 + "@1"), [f0, f1]))
        texts = []
        for names, fns in cases:
            p = Pres(len(insts))
            for fn in fns:
                fn(p)
            texts.append((names, p.render(insts)))

        def report(names, text, clause, exp, obs):
            res.fail({"clause": clause, "family": "edit", "edits": list(names), "text": text, "base_text": base_text,
                      "expected": exp, "observed": obs, "size": len(insts) * 10 + len(names)}, known)

        # phase 1: config-free rules (the process-global config is that of the rule compiled last, so all rules of a
        # phase share one config and nothing else is compiled until the phase is over)
        mops = [h.mop(make_rule_doc(r)) for r in RULES]
        base_stream = h.match(mops[0], bp, ret="stream")
        base_res = [h.match(m, bp) for m in mops]
        for names, text in texts:
            ep = h.write("edit.s", text)
            res.evaluations += 1
            res.nontrivial += 1
            try:
                stream = h.match(mops[0], ep, ret="stream")
            except Exception as e:  # the real parser/consumer raised on a presentation edit
                report(names, text, "crash", "no exception", repr(e))
                continue
            if stream != base_stream:
                report(names, text, "stream", base_stream, stream)
                continue
            for ri, m in enumerate(mops):
                r = h.match(m, ep)
                if r != base_res[ri]:
                    report(names, text, "result", base_res[ri], r)
                    break
        # phase 2: the same comparison under a rule whose config installs the optional instruction observer
        mop_cfg = h.mop(make_rule_doc([{"call": ["valid_addr"]}], CONF2))
        base_stream2 = h.match(mop_cfg, bp, ret="stream")
        base_res2 = h.match(mop_cfg, bp)
        for names, text in texts:
            ep = h.write("edit.s", text)
            res.evaluations += 1
            try:
                s2 = h.match(mop_cfg, ep, ret="stream")
                r2 = h.match(mop_cfg, ep)
            except Exception as e:
                report(names, text, "crash-with-config", "no exception", repr(e))
                continue
            if s2 != base_stream2:
                report(names, text, "stream-with-config", base_stream2, s2)
            elif r2 != base_res2:
                report(names, text, "result-with-config", base_res2, r2)
        if len(res.samples) < 1:
            res.samples.append({"edits": list(cases[len(cases) // 2][0]), "listing": [[a, m, o] for a, m, o in insts]})


def controls(h):
    insts = [(ADDRS[0], "mov", ["%rax", "%rbx"]), (ADDRS[1], "ret", [])]
    p = Pres(2)
    for name, fn in edits_at(0, insts[0]) + edits_at(1, insts[1]) + global_edits():
        q = Pres(2)
        fn(q)
        if q.render(insts) == p.render(insts):
            raise HarnessError(f"edit {name} does not change the text")
        # the edited text must still contain exactly the same instruction lines according to P
        got = [(c[1]) for c in map(rm.classify_line, q.render(insts).split("\n")) if c[0] == "inst"]
        if got != [ADDRS[0], ADDRS[1]]:
            raise HarnessError(f"edit {name} changes the instruction sequence according to the classifier: {got}")


def replay(case, h):
    a, b = h.write("a.s", case["base_text"]), h.write("b.s", case["text"])
    mops = [h.mop(make_rule_doc(r)) for r in RULES]
    try:
        if h.match(mops[0], a, ret="stream") != h.match(mops[0], b, ret="stream"):
            return True, "streams differ"
    except Exception as e:
        return True, repr(e)
    for m, r in zip(mops, RULES):
        if h.match(m, a) != h.match(m, b):
            return True, f"results differ for {r}"
    m2 = h.mop(make_rule_doc([{"call": ["valid_addr"]}], CONF2))
    if h.match(m2, a, ret="stream") != h.match(m2, b, ret="stream") or h.match(m2, a) != h.match(m2, b):
        return True, "stream/results differ under the valid_addr_range config"
    return False, "identical"
