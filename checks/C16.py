"""C16  Only the instruction sequence matters, not how the listing is presented."""
from __future__ import annotations

import itertools

from mc import e1, refmodel as rm
from mc.common import HarnessError, fmt_line, make_rule_doc

ID = "C16"
LEVEL = "exploration"
ENGINE = "E2"
TECHNIQUE = "bounded exhaustive enumeration of listings x presentation edits (every single edit at every position, every pair of edit kinds) on the real parser/consumer; relational oracle: stream and result lists identical before/after"
RULE = ("EVERY listing of length 1..L over a 6-instruction alphabet (0-3 operands, direct branch target, memory operand, "
        "operand-less) x EVERY single presentation edit at EVERY position: label line inserted/removed/renamed (names with "
        "spaces, commas, parentheses), blank line, section header, elision line '\\t...', file-format header dropped, DOS (CRLF) line endings, "
        "<sym+off> annotation added/changed/removed (incl. C++-style names with ', ' and '|'), '# comment' added (also on "
        "operand-less instructions), indentation 0..8, raw-byte column 1..15 bytes (8..15 as under `objdump --insn-width`) with different values, byte-continuation "
        "line inserted; EVERY subset of the 7 preamble lines (blank, banner, two blanks, section header, blank, label) on listings of length 1..2; plus EVERY pair of edit kinds at the first two positions and EVERY (global edit, positional edit kind) pair; non-ASCII symbol names; symbol names, annotations and comments of 1200..5000 characters; listings of 65540 / 70001 instructions in four presentations (bare, a blank line on top, labels every 1000 instructions, no header); and an environment family: the CLI run with LC_ALL=C / PYTHONUTF8=0 on listings whose labels and comments contain non-ASCII UTF-8 names must report what it reports for ASCII names. Oracle (real code vs real code): the "
        "instruction stream and the all-matches result lists of 8 fixed rules are identical for the edited and the "
        "canonical presentation, also under a rule with valid_addr_range and a full-match flag (which installs the optional instruction observer). Non-trivial = every edited listing (each differs textually from the canonical one).")
ASSUMPTIONS = ["presentation edits keep objdump's line syntax (TAB-separated address / bytes / text); arbitrary text is C08's subject"]
LEVEL_TEXT = ("All listings up to the bound x all single edits at all positions and all pairs of edit kinds; stream and results "
              "compared with the canonical presentation. Exhaustive within bounds.")
LEVEL_NOTE = "No reference model needed beyond the formatter: relational comparison of two runs of the real code."

ALPHA = [("mov", ["%rax", "%rbx"]), ("call", ["401030"]), ("ret", []), ("mov", ["0x8(%rax,%rbx,4)", "%rcx"]),
         ("imul", ["$0x10", "%rax", "%rbx"]), ("push", ["%rax"])]
ADDRS = ["401000", "401003", "401008", "40100c", "401013"]
RULES = [["mov"], [{"mov": ["rax"]}], ["call"], [{"call": ["401030"]}], ["ret"], [{"$not": ["ret"]}, "ret"], ["&i", "&i"],
         [{"mov": [{"$deref": {"main_reg": "rax", "register_multiplier": "rbx", "constant_multiplier": 4, "constant_offset": "0x8"}}]}]]

CONF2 = {"valid_addr_range": {"min": "401000", "max": "401fff"}, "mnemonics-full-match": True}
HEADER = ["", "a.out:     file format elf64-x86-64", "", "", "Disassembly of section .text:", ""]
LONGNAME = "_ZN" + "9templated" * 120 + "E"      # 1200+ characters (mangled C++ / Rust names get this long)
LABELS = [LONGNAME, "f", "main", "foo(int, char)", "a|b", "x::y", "_Z3fooi.cold", "gr\u00f6\u00dfe", "f\u00b71"]
ANNOTS = [LONGNAME + "+0x10", "f", "f+0x10", "foo(int, char)+0x4", "a|b::c,d", "main-0x8"]
COMMENTS = ["404010 <" + LONGNAME * 4 + "+0x8>", "404010 <x+0x8>", "x", "a,b|c::d", "0x10", "404010 <gr\u00f6\u00dfe+0x8>"]


def bounds(tier):
    return {"L_listing_len": 3 if tier == "quick" else 4}


class Pres:
    """presentation of one listing: per-line parameters + extra lines"""

    def __init__(self, n):
        self.header = True
        self.label0 = "f"
        self.line = [dict(indent=2, nbytes=3, annot=None, comment=None, byteseed=0) for _ in range(n)]
        self.before = [[] for _ in range(n + 1)]   # extra raw lines inserted before instruction i (i==n: at the end)

    crlf = False
    preamble_mask = None    # 7 bits: which of the 6 header lines and the label line are printed (None: header / label0 decide)

    def render(self, insts):
        text = self._render(insts)
        return text.replace("\n", "\r\n") if self.crlf else text

    def _render(self, insts):
        out = list(HEADER) if self.header else []
        if self.label0 is not None and insts:
            out.append(f"{int(insts[0][0], 16):016x} <{self.label0}>:")
        if self.preamble_mask is not None and insts:
            full = list(HEADER) + [f"{int(insts[0][0], 16):016x} <f>:"]
            out = [l for k, l in enumerate(full) if self.preamble_mask >> k & 1]
        for i, (a, m, o) in enumerate(insts):
            out += self.before[i]
            p = self.line[i]
            l = fmt_line(a, m, o, indent=p["indent"], nbytes=p["nbytes"], annot=p["annot"], comment=p["comment"])
            if p["byteseed"]:
                head, byts, rest = l.split("\t", 2)
                byts = " ".join("%02x" % ((int(b, 16) + p["byteseed"]) & 0xFF) for b in byts.split()) .ljust(20) + " "
                l = "\t".join([head, byts, rest])
            out.append(l)
        out += self.before[len(insts)]
        return "\n".join(out) + "\n"


def edits_at(i, inst):
    """all single edits applicable at instruction position i: list of (name, fn(pres))"""
    e = []
    for lab in LABELS:
        e.append((f"label:{lab}", lambda p, lab=lab: p.before[i].append(f"{0x401000 + i:016x} <{lab}>:")))
    e.append(("blank", lambda p: p.before[i].append("")))
    e.append(("blank2", lambda p: p.before[i].extend(["", ""])))
    e.append(("section", lambda p: p.before[i].extend(["", "Disassembly of section .fini:", ""])))
    e.append(("elision", lambda p: p.before[i].append("\t...")))
    e.append(("cont", lambda p: p.before[i + 1].insert(0, f"  {0x401100 + i:x}:\t00 00 00 ")))
    e.append(("cont7", lambda p: p.before[i + 1].insert(0, f"  {0x401100 + i:x}:\t00 11 22 33 44 55 66 ")))
    for ind in range(0, 9):
        if ind != 2:
            e.append((f"indent{ind}", lambda p, ind=ind: p.line[i].update(indent=ind)))
    for nb in range(1, 16):     # 8..15: what `objdump --insn-width=N` prints for a long instruction on one line
        if nb != 3:
            e.append((f"bytes{nb}", lambda p, nb=nb: p.line[i].update(nbytes=nb)))
    for seed in (1, 0x5b, 0xb8):
        e.append((f"bytevals{seed}", lambda p, seed=seed: p.line[i].update(byteseed=seed)))
    if inst[2]:
        for an in ANNOTS:
            e.append((f"annot:{an}", lambda p, an=an: p.line[i].update(annot=an)))
    for c in COMMENTS:
        e.append((f"comment:{c}", lambda p, c=c: p.line[i].update(comment=c)))
    return e


def global_edits():
    return [("noheader", lambda p: setattr(p, "header", False)), ("nolabel", lambda p: setattr(p, "label0", None)),
            ("label0:main", lambda p: setattr(p, "label0", "foo(int, char)")),
            ("crlf", lambda p: setattr(p, "crlf", True)),
            ("tail-blank", lambda p: p.before[-1].extend(["", ""])), ("tail-elision", lambda p: p.before[-1].append("\t..."))]


def run_longlisting(h, res, known, n):
    """a listing of n instructions in three presentations (bare; one blank line on top; labels every 1000 instructions):
    the streams must be identical"""
    unit = [("mov", ["%rax", "%rbx"]), ("call", ["401030"]), ("ret", []), ("push", ["%rax"])]
    body = [fmt_line(f"{0x400000 + 4 * i:x}", *unit[i % 4]) for i in range(n)]
    variants = {
        "bare": HEADER + ["0000000000400000 <f>:"] + body,
        "blank_on_top": [""] + HEADER + ["0000000000400000 <f>:"] + body,
        "labels": HEADER + [x for i, l in enumerate(body) for x in (([f"{0x400000 + 4 * i:016x} <f{i}>:"] if i % 1000 == 0 else []) + [l])],
        "no_header": body,
    }
    mop = h.mop(make_rule_doc(["call", "ret"]))
    out = {}
    for name, lines in variants.items():
        p = h.write(f"c16long_{name}.s", "\n".join(lines) + "\n")
        res.evaluations += 1
        res.nontrivial += 1
        out[name] = (h.match(mop, p, ret="stream"), h.match(mop, p, only_addr=True))
    for name, v in out.items():
        if v != out["bare"]:
            s0, s1 = out["bare"][0], v[0]
            k = next((i for i, (a, b) in enumerate(zip(s0, s1)) if a != b), min(len(s0), len(s1)))
            res.fail({"clause": "long-presentation", "family": "longlisting", "variant": name, "n_instructions": n,
                      "expected": s0[max(0, k - 60):k + 60], "observed": s1[max(0, k - 60):k + 60], "size": n}, known)


def shards(tier):
    return e1.std_shards(tier, 32, 128) + [{"kind": "env"}] + [{"kind": "long", "n": n} for n in ([65540, 70001] if tier == "quick" else [32770, 65540, 70001, 131080])]


def run_env(h, res, known):
    """The same instructions with ASCII and with non-ASCII symbol names, through the CLI under a C locale."""
    import os
    import re
    import subprocess
    import sys
    import yaml
    from mc.common import REPO
    insts = [(ADDRS[0], "mov", ["%rax", "%rbx"]), (ADDRS[1], "call", ["401030"]), (ADDRS[2], "ret", [])]
    rule = h.write("env_rule.yaml", yaml.safe_dump(make_rule_doc(["call", "ret"]), sort_keys=False))
    cwd = h.path("envcwd")
    os.makedirs(cwd, exist_ok=True)
    outs = {}
    for variant, (label, annot, comment) in {"ascii": ("main", "f+0x10", "404010 <x+0x8>"),
                                              "utf8": ("gr\u00f6\u00dfe", "f\u00b71+0x10", "404010 <gr\u00f6\u00dfe+0x8>")}.items():
        p = Pres(3)
        p.label0 = label
        p.line[1].update(annot=annot)
        p.line[0].update(comment=comment)
        lp = h.write(f"env_{variant}.s", p.render(insts).encode("utf-8"))
        for envname, extra in {"utf8env": {"PYTHONUTF8": "1"}, "c_locale": {"LC_ALL": "C", "LANG": "C", "PYTHONUTF8": "0"}}.items():
            env = {k: v for k, v in os.environ.items() if k not in ("LC_ALL", "LANG", "PYTHONUTF8", "PYTHONIOENCODING", "LC_CTYPE")}
            env.update(extra)
            env["PYTHONPATH"] = os.path.join(REPO, "src")
            try:
                r = subprocess.run([sys.executable, "-m", "jasm.main", "-p", rule, "-s", lp, "--all-matches"], capture_output=True, cwd=cwd, env=env, timeout=600)
            except subprocess.TimeoutExpired as e:
                r = subprocess.CompletedProcess(e.cmd, "timeout", e.stdout or b"", e.stderr or b"")
            text = (r.stdout + r.stderr).decode("utf-8", "replace")
            outs[(variant, envname)] = (r.returncode, re.findall(r"Matched address: (\S+)", text), "RESULT: Pattern found" in text)
            res.evaluations += 1
            res.nontrivial += 1
    base = outs[("ascii", "utf8env")]
    for k, v in outs.items():
        if v != base:
            res.fail({"clause": "env", "family": "env", "edits": list(k), "expected": list(base), "observed": list(v), "size": 1}, known)


_MOPS = {}


def run_shard(shard, tier, h, res, known):
    if shard.get("kind") == "env":
        return run_env(h, res, known)
    if shard.get("kind") == "long":
        return run_longlisting(h, res, known, shard["n"])
    L = bounds(tier)["L_listing_len"]
    listings = [idx for n in range(1, L + 1) for idx in itertools.product(range(len(ALPHA)), repeat=n)]
    mops = [h.mop(make_rule_doc(r)) for r in RULES]
    for li in range(shard["lo"], len(listings), shard["n"]):
        idx = listings[li]
        insts = [(ADDRS[p], ALPHA[i][0], ALPHA[i][1]) for p, i in enumerate(idx)]
        base_text = Pres(len(insts)).render(insts)
        bp = h.write("base.s", base_text)
        cases = []
        for i in range(len(insts)):
            for name, fn in edits_at(i, insts[i]):
                cases.append(((f"{name}@{i}",), [fn]))
        for name, fn in global_edits():
            cases.append(((name,), [fn]))
        if len(insts) >= 2:   # every pair of edit kinds at positions 0 and 1
            e0, e1_ = edits_at(0, insts[0]), edits_at(1, insts[1])
            kinds0 = {}
            for n, f in e0:
                kinds0.setdefault(n.split(":")[0].rstrip("0123456789"), (n, f))
            kinds1 = {}
            for n, f in e1_:
                kinds1.setdefault(n.split(":")[0].rstrip("0123456789"), (n, f))
            for (n0, f0) in kinds0.values():
                for (n1, f1) in kinds1.values():
                    cases.append(((n0 + "@0", n1 + "@1"), [f0, f1]))
        # every global edit combined with every edit kind at position 1 (or 0 for one-instruction listings)
        pos = 1 if len(insts) >= 2 else 0
        kinds_p = {}
        for n, f in edits_at(pos, insts[pos]):
            kinds_p.setdefault(n.split(":")[0].rstrip("0123456789"), (n, f))
        for gname, gfn in global_edits():
            for (n1, f1) in kinds_p.values():
                cases.append(((gname, f"{n1}@{pos}"), [gfn, f1]))
        if len(insts) <= 2:   # every subset of the 7 preamble lines (blank, banner, blank, blank, section header, blank, label)
            for mask in range(127):
                cases.append(((f"preamble:{mask:07b}",), [lambda p, mask=mask: setattr(p, "preamble_mask", mask)]))
        texts = []
        for names, fns in cases:
            p = Pres(len(insts))
            for fn in fns:
                fn(p)
            texts.append((names, p.render(insts)))

        def report(names, text, clause, exp, obs):
            res.fail({"clause": clause, "family": "edit", "edits": list(names), "text": text, "base_text": base_text,
                      "expected": exp, "observed": obs, "size": len(insts) * 10 + len(names)}, known)

        # phase 1: config-free rules (the process-global config is that of the rule compiled last, so all rules of a
        # phase share one config and nothing else is compiled until the phase is over)
        mops = [h.mop(make_rule_doc(r)) for r in RULES]
        base_stream = h.match(mops[0], bp, ret="stream")
        base_res = [h.match(m, bp) for m in mops]
        for names, text in texts:
            ep = h.write("edit.s", text.encode() if "\r" in text else text)
            res.evaluations += 1
            res.nontrivial += 1
            try:
                stream = h.match(mops[0], ep, ret="stream")
            except Exception as e:  # the real parser/consumer raised on a presentation edit
                report(names, text, "crash", "no exception", repr(e))
                continue
            if stream != base_stream:
                report(names, text, "stream", base_stream, stream)
                continue
            for ri, m in enumerate(mops):
                r = h.match(m, ep)
                if r != base_res[ri]:
                    report(names, text, "result", base_res[ri], r)
                    break
        # phase 2: the same comparison under a rule whose config installs the optional instruction observer
        mop_cfg = h.mop(make_rule_doc([{"call": ["valid_addr"]}], CONF2))
        base_stream2 = h.match(mop_cfg, bp, ret="stream")
        base_res2 = h.match(mop_cfg, bp)
        for names, text in texts:
            ep = h.write("edit.s", text.encode() if "\r" in text else text)
            res.evaluations += 1
            try:
                s2 = h.match(mop_cfg, ep, ret="stream")
                r2 = h.match(mop_cfg, ep)
            except Exception as e:
                report(names, text, "crash-with-config", "no exception", repr(e))
                continue
            if s2 != base_stream2:
                report(names, text, "stream-with-config", base_stream2, s2)
            elif r2 != base_res2:
                report(names, text, "result-with-config", base_res2, r2)
        if len(res.samples) < 1:
            res.samples.append({"edits": list(cases[len(cases) // 2][0]), "listing": [[a, m, o] for a, m, o in insts]})


def controls(h):
    insts = [(ADDRS[0], "mov", ["%rax", "%rbx"]), (ADDRS[1], "ret", [])]
    p = Pres(2)
    for name, fn in edits_at(0, insts[0]) + edits_at(1, insts[1]) + global_edits():
        q = Pres(2)
        fn(q)
        if q.render(insts) == p.render(insts):
            raise HarnessError(f"edit {name} does not change the text")
        # the edited text must still contain exactly the same instruction lines according to P
        got = [(c[1]) for c in map(rm.classify_line, q.render(insts).split("\n")) if c[0] == "inst"]
        if got != [ADDRS[0], ADDRS[1]]:
            raise HarnessError(f"edit {name} changes the instruction sequence according to the classifier: {got}")


def replay(case, h):
    if case.get("family") == "longlisting":
        r = type("R", (), {"evaluations": 0, "nontrivial": 0, "fails": []})()
        r.fail = lambda c, k: r.fails.append(c)
        run_longlisting(h, r, set(), case["n_instructions"])
        return bool(r.fails), str(r.fails)[:300]
    if case.get("family") == "env":
        r = type("R", (), {"evaluations": 0, "nontrivial": 0, "fails": []})()
        r.fail = lambda c, k: r.fails.append(c)
        run_env(h, r, set())
        return bool(r.fails), str(r.fails)[:300]
    a, b = h.write("a.s", case["base_text"]), h.write("b.s", case["text"].encode() if "\r" in case["text"] else case["text"])
    mops = [h.mop(make_rule_doc(r)) for r in RULES]
    try:
        if h.match(mops[0], a, ret="stream") != h.match(mops[0], b, ret="stream"):
            return True, "streams differ"
    except Exception as e:
        return True, repr(e)
    for m, r in zip(mops, RULES):
        if h.match(m, a) != h.match(m, b):
            return True, f"results differ for {r}"
    m2 = h.mop(make_rule_doc([{"call": ["valid_addr"]}], CONF2))
    if h.match(m2, a, ret="stream") != h.match(m2, b, ret="stream") or h.match(m2, a) != h.match(m2, b):
        return True, "stream/results differ under the valid_addr_range config"
    return False, "identical"
