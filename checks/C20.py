"""C20  The `jasm` command reports what the library computes."""
from __future__ import annotations

import itertools
import os
import re
import subprocess
import sys

import yaml

from mc import e1
from mc.common import HarnessError, REPO, fmt_listing, make_rule_doc

ID = "C20"
LEVEL = "exploration"
ENGINE = "E6"
TECHNIQUE = "exhaustive enumeration of the command-line option space (every subset of options, every order of option groups, 0/1/2 macro files in both orders) x rule/input pairs; the CLI subprocess is compared with the in-process API for the corresponding MatchConfig"
RULE = ("rule/input pairs: {found once, not found, several matches, captures, needs two macro files in a specific order, "
        "failing rule (undefined macro with definitions), failing input (missing file), five more failing operations raising other exception types (regex error at scan time, negative times, malformed YAML, wrongly typed config entry, macro without pattern), rule depending on a call target, listing whose addresses restart (identical consecutive address lines), input the disassembler rejects, listing whose matched addresses cross a hex digit-count boundary}; -b runs with objdump absent from PATH x {-s assembly, -b binary} x "
        "EVERY subset of {--all-matches, --return_only_address, --debug, --info} x --macros with 0 / 1 / 2 files in both "
        "orders x EVERY order of the option groups on the command line (quick: all orders for 2 pairs, 3 rotations for the "
        "rest); plus the invalid command lines (no -p; neither -s nor -b; both). Each is one `python -m jasm.main` "
        "subprocess in a scratch cwd. Oracle: exit status 0; 'RESULT: Pattern found' logged iff the API bool is true; the "
        "sequence of 'Matched address: X' lines equals the API list for the same MatchConfig (same search mode, same "
        "address-only flag, same macro list in the same order); when the API call raises, the exit status is non-zero; "
        "invalid command lines exit non-zero. Non-trivial = command lines whose API result is a non-empty list or an "
        "exception.")
ASSUMPTIONS = ["results are read from the INFO log lines on stderr (log level options must not hide them)"]
LEVEL_TEXT = ("All option subsets x orders x pairs of the stated sets as real subprocesses vs the in-process API. Exhaustive "
              "within the stated sets.")
LEVEL_NOTE = "Trusted: parsing of the two log-line formats; the API as the specification of the CLI."

LISTING = [("401000", "mov", ["%rax", "%rbx"]), ("401003", "push", ["%rax"]), ("401004", "push", ["%rax"]),
           ("401005", "mov", ["%rbx", "%rax"]), ("401008", "ret", []), ("401009", "call", ["401030"])]
BIN_SRC = ".text\n mov %rax,%rbx\n push %rax\n push %rax\n mov %rbx,%rax\n ret\n call .+0x22\n"
# addresses restart at 0 (several code sections): consecutive matches can print identical address lines
DUP_LISTING_TEXT = ("\nx.o:     file format elf64-x86-64\n\n\nDisassembly of section .text:\n\n0000000000000000 <f>:\n"
                    "   0:\tc3                   \tret\n\nDisassembly of section .text.g:\n\n0000000000000000 <g>:\n"
                    "   0:\tc3                   \tret\n   1:\tc3                   \tret\n")
# addresses crossing a hex digit-count boundary (ff8 -> 1000): string order differs from listing order
WIDTH_LISTING_TEXT = ("\nx.o:     file format elf64-x86-64\n\n\nDisassembly of section .text:\n\n0000000000000ff8 <f>:\n"
                      "     ff8:\tc3                   \tret\n     ff9:\t90                   \tnop\n     ffc:\tc3                   \tret\n"
                      "    1000:\tc3                   \tret\n    1004:\tc3                   \tret\n   10000:\tc3                   \tret\n")
WIDTH_BIN_SRC = ".text\n.org 0xff8\n ret\n nop\n.org 0xffc\n ret\n.org 0x1000\n ret\n.org 0x1004\n ret\n.org 0x10000\n ret\n"
DUP_BIN_SRC = ".text\n ret\n.section .text.g,\"ax\"\n ret\n ret\n"
M1 = {"macros": [{"name": "@outer", "pattern": [{"$or": ["@inner", "ret"]}]}]}
M2 = {"macros": [{"name": "@inner", "pattern": "push"}]}
M2B = {"macros": [{"name": "@outer", "pattern": ["mov"]}]}   # redefines @outer: file order decides which wins

PAIRS = {
    "found_once": dict(rule=make_rule_doc(["ret"]), macros=0),
    "not_found": dict(rule=make_rule_doc(["call"]), macros=0),
    "several": dict(rule=make_rule_doc(["push"]), macros=0),
    "two_inst": dict(rule=make_rule_doc(["mov", "push"]), macros=0),
    "capture": dict(rule=make_rule_doc([{"mov": ["&x", "&y"]}, "push", "push", {"mov": ["&y", "&x"]}]), macros=0),
    "macro_order": dict(rule=make_rule_doc(["@outer", "@outer"]), macros=2),
    "macro_one": dict(rule=make_rule_doc(["@inner", "ret"], None, [{"name": "@z", "pattern": "x"}]), macros=1),
    "fail_rule": dict(rule=make_rule_doc(["@nosuch", "ret"], None, [{"name": "@z", "pattern": "x"}]), macros=0),
    "fail_input": dict(rule=make_rule_doc(["ret"]), macros=0, missing_input=True),
    # one failing operation per kind of exception the library raises (the command must fail for every one of them)
    "fail_regex": dict(rule=make_rule_doc([{"jmp": ["*%rax"]}]), macros=0, few=True),                      # regex.error when the scan starts
    "fail_times": dict(rule=make_rule_doc([{"mov": {"times": -1}}]), macros=0, few=True),                   # ValueError
    "fail_yaml": dict(rule=None, raw="pattern: [\n  - mov\n", macros=0, few=True),                          # yaml error
    "fail_config": dict(rule=make_rule_doc(["ret"], {"sections": ".text"}), macros=0, few=True),            # wrongly typed config entry
    "fail_macro": dict(rule=make_rule_doc(["@r", "ret"], None, [{"name": "@r"}]), macros=0, few=True),     # AssertionError
    "call_target": dict(rule=make_rule_doc([{"call": ["4010"]}]), macros=0),         # depends on an operand a stale valid_addr_range would rewrite
    "dup_addr": dict(rule=make_rule_doc(["ret"]), macros=0, input="dup"),            # identical consecutive 'Matched address' lines
    "width_cross": dict(rule=make_rule_doc(["ret"]), macros=0, input="width"),       # listing order != string order of the addresses
    "not_object": dict(rule=make_rule_doc(["ret"]), macros=0, input="notobj"),       # -b: the disassembler rejects the file
}
FLAGS = ["--all-matches", "--return_only_address", "--debug", "--info"]


def bounds(tier):
    return {"pairs": len(PAIRS), "flag_subsets": 16, "orders": "all 24 for 2 pairs, 3 rotations otherwise" if tier == "quick" else "all"}


def all_cases(tier):
    cases = []
    for pn, p in PAIRS.items():
        for kind in ("s", "b"):
            macro_opts = [()]
            if p["macros"] == 1:
                macro_opts = [("m2",)]
            if p["macros"] == 2:
                macro_opts = [("m1", "m2"), ("m2", "m1"), ("m1", "m2b"), ("m2b", "m1")]
            for mo in macro_opts:
                for k in range(0, len(FLAGS) + 1):
                    for fl in itertools.combinations(FLAGS, k):
                        if p.get("few") and fl not in ((), ("--all-matches",), ("--all-matches", "--return_only_address", "--debug")):
                            continue
                        groups = [("P",), ("I",)] + [(f,) for f in fl if f in FLAGS[:2]] + ([("M",)] if mo else [])
                        loglvl = [f for f in fl if f in FLAGS[2:]]
                        perms = list(itertools.permutations(range(len(groups))))
                        if tier == "quick" and pn not in ("several", "macro_order"):
                            perms = [perms[0], perms[len(perms) // 2], perms[-1]]
                        elif tier == "quick":
                            perms = perms[:: max(1, len(perms) // 8)]
                        for perm in perms:
                            cases.append((pn, kind, mo, tuple(fl), tuple(perm), tuple(loglvl)))
    # every file given by a path RELATIVE to the working directory (the rule and the macro files live in its parent)
    for pn, mo in (("found_once", ()), ("several", ()), ("macro_one", ("m2",)), ("macro_order", ("m1", "m2")), ("macro_order", ("m2", "m1")), ("fail_input", ())):
        for kind in ("s", "b"):
            for fl in ((), ("--all-matches", "--return_only_address")):
                n = 2 + len(fl) + (1 if mo else 0)
                cases.append((pn, kind, mo, fl, tuple(range(n)), ("REL",)))
    for bad in ("no_p", "no_input", "both_inputs", "unknown_flag", "p_without_value"):
        cases.append(("found_once", "s", (), (), (), ("INVALID", bad)))
    for pn in ("found_once", "several", "not_found"):
        for fl in ((), ("--all-matches",), ("--all-matches", "--return_only_address")):
            cases.append((pn, "b", (), fl, (0, 1) + tuple(range(2, 2 + len(fl))), ("ENV", "no_objdump")))
    return cases


def shards(tier):
    return e1.std_shards(tier, 64, 128)


_FILES = {}


def files(h):
    if h.root in _FILES:
        return _FILES[h.root]
    d = h.path("c20")
    os.makedirs(d, exist_ok=True)
    f = {"s": os.path.join(d, "in.s"), "b": os.path.join(d, "in.o"), "dup_s": os.path.join(d, "dup.s"), "dup_b": os.path.join(d, "dup.o"),
         "width_s": os.path.join(d, "width.s"), "width_b": os.path.join(d, "width.o"), "notobj_s": os.path.join(d, "notobj.txt"), "notobj_b": os.path.join(d, "notobj.txt"), "m1": os.path.join(d, "m1.yaml"), "m2": os.path.join(d, "m2.yaml"),
         "m2b": os.path.join(d, "m2b.yaml"), "cwd": os.path.join(d, "cwd"), "missing": os.path.join(d, "nosuch.s")}
    open(f["s"], "w").write(fmt_listing(LISTING))
    src = os.path.join(d, "in_src.s")
    open(src, "w").write(BIN_SRC)
    subprocess.run(["as", "--64", src, "-o", f["b"]], check=True)
    open(f["dup_s"], "w").write(DUP_LISTING_TEXT)
    src2 = os.path.join(d, "dup_src.s")
    open(src2, "w").write(DUP_BIN_SRC)
    subprocess.run(["as", "--64", src2, "-o", f["dup_b"]], check=True)
    open(f["width_s"], "w").write(WIDTH_LISTING_TEXT)
    src3 = os.path.join(d, "width_src.s")
    open(src3, "w").write(WIDTH_BIN_SRC)
    subprocess.run(["as", "--64", src3, "-o", f["width_b"]], check=True)
    open(f["notobj_s"], "w").write("this is neither a listing nor an object file\n")
    for k, v in (("m1", M1), ("m2", M2), ("m2b", M2B)):
        open(f[k], "w").write(yaml.safe_dump(v, sort_keys=False))
    os.makedirs(f["cwd"], exist_ok=True)
    for pn, p in PAIRS.items():
        f["rule_" + pn] = os.path.join(d, f"rule_{pn}.yaml")
        open(f["rule_" + pn], "w").write(p["raw"] if "raw" in p else yaml.safe_dump(p["rule"], sort_keys=False))
    _FILES.clear()
    _FILES[h.root] = f
    return f


def input_of(f, pn, kind):
    p = PAIRS[pn]
    if p.get("missing_input"):
        return f["missing"]
    return f[f"{p['input']}_{kind}"] if p.get("input") else f[kind]


def api(h, f, pn, kind, mo, fl):
    gd = h.gd
    inp = input_of(f, pn, kind)
    h._decoy()      # the library side runs after other operations in this process; the CLI is always a fresh process
    out = {}
    for ret in ("bool", "list"):
        cfg = gd.MatchConfig(pattern_pathstr=f["rule_" + pn], input_file=inp,
                             input_file_type=gd.InputFileType.binary if kind == "b" else gd.InputFileType.assembly,
                             return_only_address="--return_only_address" in fl,
                             return_mode=gd.MatchingReturnMode.bool if ret == "bool" else gd.MatchingReturnMode.matched_addrs_list,
                             matching_mode=gd.MatchingSearchMode.all_finds if "--all-matches" in fl else gd.MatchingSearchMode.first_find,
                             macros=[f[m] for m in mo] or None)
        try:
            out[ret] = h.MasterOfPuppets(cfg).perform_matching()
        except BaseException as e:  # noqa
            if isinstance(e, KeyboardInterrupt):
                raise
            return {"raise": type(e).__name__}
    return out


def cli(f, pn, kind, mo, fl, perm, loglvl):
    inp = input_of(f, pn, kind)
    if loglvl and loglvl[0] == "INVALID":
        argv = {"no_p": ["-s", f["s"]], "no_input": ["-p", f["rule_found_once"]],
                "both_inputs": ["-p", f["rule_found_once"], "-s", f["s"], "-b", f["b"]],
                "unknown_flag": ["-p", f["rule_found_once"], "-s", f["s"], "--nosuchflag"],
                "p_without_value": ["-s", f["s"], "-p"]}[loglvl[1]]
    else:
        groups = [["-p", f["rule_" + pn]], ["-" + kind, inp]] + [[x] for x in fl if x in FLAGS[:2]] + ([["--macros"] + [f[m] for m in mo]] if mo else [])
        argv = []
        ordered = [groups[i] for i in perm]
        # --macros takes a variable number of values: it must not be directly followed by nothing that looks like a value;
        # every group starts with an option, so any order is a valid command line
        for g in ordered:
            argv += g
        if loglvl and loglvl[0] == "REL":
            argv = [os.path.relpath(a, f["cwd"]) if os.path.isabs(a) else a for a in argv]
        else:
            argv += list(loglvl)
    env = dict(os.environ)
    env["PYTHONPATH"] = os.path.join(REPO, "src")
    if loglvl and loglvl[0] == "ENV":
        empty = os.path.join(f["cwd"], "emptybin")
        os.makedirs(empty, exist_ok=True)
        env["PATH"] = empty                       # no objdump anywhere on PATH
        argv = [a for a in argv if a != "ENV" and a != "no_objdump"]
    try:
        r = subprocess.run([sys.executable, "-m", "jasm.main"] + argv, capture_output=True, text=True, cwd=f["cwd"], env=env, timeout=600)
    except subprocess.TimeoutExpired as e:      # a CLI run that never ends is an outcome (no verdict line, no exit status)
        r = subprocess.CompletedProcess(e.cmd, "timeout", (e.stdout or b"").decode("utf-8", "replace") if isinstance(e.stdout, bytes) else (e.stdout or ""),
                                        (e.stderr or b"").decode("utf-8", "replace") if isinstance(e.stderr, bytes) else (e.stderr or ""))
    text = r.stdout + "\n" + r.stderr
    addrs = re.findall(r"Matched address: (.*)$", text, flags=re.M)
    found = "RESULT: Pattern found" in text
    notfound = "RESULT: Pattern not found" in text
    return r.returncode, found, notfound, addrs, argv


def run_shard(shard, tier, h, res, known):
    f = files(h)
    cases = all_cases(tier)
    for ci in range(shard["lo"], len(cases), shard["n"]):
        pn, kind, mo, fl, perm, loglvl = cases[ci]
        res.evaluations += 1
        rc, found, notfound, addrs, argv = cli(f, pn, kind, mo, fl, perm, loglvl)
        shown = [a.replace(os.path.dirname(f["s"]), "<d>") for a in argv]
        case = {"family": pn, "argv": shown, "pair": pn, "kind": kind, "macros": list(mo), "flags": list(fl), "perm": list(perm),
                "loglvl": list(loglvl), "size": len(argv)}
        if loglvl and loglvl[0] == "INVALID":
            res.nontrivial += 1
            if rc == 0:
                res.fail({**case, "clause": "invalid-accepted", "expected": "non-zero exit", "observed": f"exit {rc}"}, known)
            continue
        if loglvl and loglvl[0] == "ENV":
            # the disassembler is missing: the library raises (FileNotFoundError), so the command must fail too
            res.nontrivial += 1
            if rc == 0:
                res.fail({**case, "clause": "failure-exit-0", "expected": "non-zero exit (objdump is not on PATH)",
                          "observed": f"exit 0 found={found} addrs={addrs}"}, known)
            continue
        want = api(h, f, pn, kind, mo, fl)
        if "raise" in want:
            res.nontrivial += 1
            if rc == 0:
                res.fail({**case, "clause": "failure-exit-0", "expected": f"non-zero exit (API raises {want['raise']})",
                          "observed": f"exit 0 found={found} addrs={addrs}"}, known)
            continue
        if want["list"]:
            res.nontrivial += 1
        probs = []
        if rc != 0:
            probs.append(("exit", 0, rc))
        if found != bool(want["bool"]) or notfound == bool(want["bool"]):
            probs.append(("verdict", f"Pattern {'found' if want['bool'] else 'not found'}", f"found-line={found} notfound-line={notfound}"))
        if addrs != list(want["list"]):
            probs.append(("addresses", want["list"], addrs))
        for clause, exp, obs in probs:
            res.fail({**case, "clause": clause, "expected": exp, "observed": obs}, known)
        if len(res.samples) < 1:
            res.samples.append({"argv": shown, "api": {k: v for k, v in want.items()}, "cli": {"exit": rc, "found": found, "addresses": addrs}})


def controls(h):
    f = files(h)
    w = api(h, f, "several", "s", (), ("--all-matches", "--return_only_address"))
    if w.get("list") != ["401003", "401004"]:
        raise HarnessError(f"API control for C20 unexpected: {w}")
    w = api(h, f, "macro_order", "s", ("m1", "m2"), ("--all-matches",))
    w2 = api(h, f, "macro_order", "s", ("m2b", "m1"), ("--all-matches",))
    if w == w2:
        raise HarnessError("macro file order does not influence the API result: the order probe is vacuous")


def replay(case, h):
    f = files(h)
    rc, found, notfound, addrs, argv = cli(f, case["pair"], case["kind"], tuple(case["macros"]), tuple(case["flags"]), tuple(case["perm"]), tuple(case["loglvl"]))
    if case["loglvl"] and case["loglvl"][0] in ("INVALID", "ENV"):
        return rc == 0, f"exit {rc}"
    want = api(h, f, case["pair"], case["kind"], tuple(case["macros"]), tuple(case["flags"]))
    if "raise" in want:
        return rc == 0, f"API raises {want['raise']}; CLI exit {rc}"
    bad = rc != 0 or found != bool(want["bool"]) or addrs != list(want["list"])
    return bad, f"API={want} CLI exit={rc} found={found} addrs={addrs}"
