"""C11  All-matches mode is a complete leftmost non-overlapping scan."""
from __future__ import annotations

import importlib

from mc import e1, refmodel as rm
from mc.common import HarnessError, fmt_listing, make_rule_doc

ID = "C11"
LEVEL = "exploration"
ENGINE = "E1"
TECHNIQUE = "bounded exhaustive enumeration of non-empty-matching rules x listings with adjacent/separated/overlapping occurrences, both search modes, scan oracle on the reference match relation; plus boundary-length long listings"
RULE = ("rules: every plain sequence of length 1..3 over {mov,push} (self-overlapping: 'a a', 'a b a'), the C02 repetition "
        "family and the instruction-level C04 $not family, capture rules, rules differing from the listing only in letter case, filtered by the reference to those that cannot match the empty "
        "sequence x EVERY listing of length 0..L over a 3-instruction alphabet (all adjacent / separated / overlapping "
        "layouts); long family: 2- and 3-instruction rules on periodic listings of N instructions for N around 2^13 and "
        "2^16 in all 3 phases. Oracle on the reference relation: reported spans record-aligned, pairwise disjoint, "
        "increasing, each genuine; no reference match starts in any gap or after the last span; first-match result = "
        "one-element prefix of the all-matches result. Non-trivial = reference finds the rule or its first item matches.")
ASSUMPTIONS = ["which of several genuine matches starting at the same instruction is reported is not prescribed (regex priorities)"]
LEVEL_TEXT = ("All rules of the stated families x all listings up to the bound, both modes, scan oracle. Exhaustive within "
              "bounds; long listings are a fixed set of boundary lengths, not all lengths.")
LEVEL_NOTE = "Trusted: mc/refmodel.py match relation; scan oracle in mc/e1.analyse."

ALPHA = [("mov", ["%rax", "%rbx"]), ("push", ["%rax"]), ("ret", [])]
W = ("verdict", "aligned", "genuine", "scan")


def bounds(tier):
    return {"L_listing_len": 5 if tier == "quick" else 7,
            "long_N": [8190, 8193, 65535, 65538] if tier == "quick" else [4095, 4098, 8190, 8193, 16386, 32769, 65535, 65538, 131073]}


def all_rules(tier):
    import itertools
    rules = []
    for n in (1, 2, 3):
        for seq in itertools.product(["mov", "push"], repeat=n):
            rules.append(e1.RuleCase("seq", list(seq), "c11", want=W))
            if n <= 2:
                rules.append(e1.RuleCase("seq/dup", list(seq), "dup", want=("verdict",)))
    # rules with capture groups (the regex then has numbered groups; results must still be whole matches)
    for pat in (["&i", "&i"], ["&i", "push"], [{"push": ["&x"]}, {"push": ["&x"]}], [{"mov": ["&x", "&y"]}, "push"],
                [{"mov": ["&x", "&y"]}], ["&i", "&j", "&i"], [{"push": ["&genreg-1.64"]}, {"push": ["&genreg-1.64"]}]):
        rules.append(e1.RuleCase("capture", pat, "c11", want=W))
    # names that differ from the listing only in letter case: both search modes must treat them alike (not found)
    for pat in (["MOV"], ["Mov", "push"], [{"push": ["%RAX"]}], ["mov", "PUSH"], [{"MOV": ["rax"]}, "push"]):
        rules.append(e1.RuleCase("case", pat, "c11", want=W))
    c02 = importlib.import_module("checks.C02")
    c04 = importlib.import_module("checks.C04")
    r = rm.Ref()
    for rc in c02.all_rules(tier) + c04.instr_rules(tier):
        if r.ends(rc.pattern, [], 0):
            continue  # can match the empty sequence: outside the property
        rules.append(e1.RuleCase("c02c04:" + rc.family, rc.pattern, "c11", want=W))
    return rules


def shards(tier):
    return e1.std_shards(tier, 64, 256)


def build_lsets(h, tier):
    return {"c11": e1.ListingSet(h, ALPHA, bounds(tier)["L_listing_len"]),
            "dup": e1.ListingSet(h, ALPHA, 4, minlen=2, addrs=["0", "3", "0", "3"])}    # addresses restart (several code sections)


LONG_RULES = [["mov", "push"], ["push", "ret", "mov"], [{"$not": ["ret"]}, {"$not": ["mov"]}], ["ret"],
              [{"mov": {"times": {"min": 1, "max": 2}}}, "push"]]


def long_listing(n, phase):
    unit = [("mov", ["%rax", "%rbx"]), ("push", ["%rax"]), ("ret", [])]
    insts = [("ret", [])] * phase
    while len(insts) < n:
        insts.append(unit[(len(insts) - phase) % 3])
    return [(f"{0x400000 + 2 * i:x}", m, o) for i, (m, o) in enumerate(insts[:n])]


def run_long(shard, tier, h, res, known):
    jobs = [(n, ph, ri) for n in bounds(tier)["long_N"] for ph in range(3) for ri in range(len(LONG_RULES))]
    for ji in range(shard["lo"], len(jobs), shard["n"]):
        n, ph, ri = jobs[ji]
        att = long_listing(n, ph)
        norm = [e1.norm_inst(*x) for x in att]
        path = h.write(f"long_{n}_{ph}.s", fmt_listing(att))
        pat = LONG_RULES[ri]
        mop = h.mop(make_rule_doc(pat))
        res.evaluations += 1
        res.nontrivial += 1
        problems, _ = e1.analyse(h, mop, rm.Ref(), pat, path, norm, want=W)
        first = h.match(mop, path, mode="first")
        alln = h.match(mop, path, mode="all")
        if first != alln[:1]:
            problems.append(("first-prefix", alln[:1], first))
        for clause, exp, obs in problems:
            res.fail({"clause": clause, "rule": make_rule_doc(pat), "family": "long", "long": [n, ph],
                      "expected": str(exp)[:300], "observed": str(obs)[:300], "size": n}, known)


def run_shard(shard, tier, h, res, known):
    rules = all_rules(tier)
    lsets = e1.get_lsets(h, tier, build_lsets)
    e1.run_rules(h, res, known, rules, lsets, shard, prop=ID)
    # first-match mode = one-element prefix of all-matches
    for ri in range(shard["lo"], len(rules), shard["n"]):
        rc = rules[ri]
        try:
            mop = h.mop(make_rule_doc(rc.pattern))
        except Exception:
            continue
        if rc.lset == "dup":
            # repeated addresses: the scan is checked on the number and order of reported addresses
            ref = rm.Ref()
            for idx, path, norm, att in lsets["dup"]:
                res.evaluations += 1
                got = h.match(mop, path, mode="all", only_addr=True)
                spans, i = [], 0
                while i < len(norm):        # leftmost non-overlapping scan on the reference relation (plain sequences: unique end)
                    ends = ref.ends(rc.pattern, norm, i)
                    if ends:
                        spans.append(i)
                        i = max(ends)
                    else:
                        i += 1
                want = [norm[s][0] for s in spans]
                if got != want:
                    res.fail({"clause": "scan-dup-addr", "rule": make_rule_doc(rc.pattern), "family": rc.family,
                              "listing": [[a, m, list(o)] for a, m, o in att], "expected": want, "observed": got, "size": len(att)}, known)
            continue
        for idx, path, norm, att in lsets["c11"]:
            res.evaluations += 1
            first = h.match(mop, path, mode="first")
            alln = h.match(mop, path, mode="all")
            if first != alln[:1]:
                res.fail({"clause": "first-prefix", "rule": make_rule_doc(rc.pattern), "family": rc.family,
                          "listing": [[a, m, list(o)] for a, m, o in att], "expected": alln[:1], "observed": first,
                          "size": len(att) * 10 + len(str(rc.pattern))}, known)
    run_long(shard, tier, h, res, known)


CONTROLS = [
    (["mov", "mov"], ["mov", "mov", "mov"], {(0, 2), (1, 3)}),
    (["mov", "push", "mov"], ["mov", "push", "mov", "push", "mov"], {(0, 3), (2, 5)}),
]


def controls(h):
    for pat, mns, spans in CONTROLS:
        norm = [(str(i), m, ()) for i, m in enumerate(mns)]
        if rm.Ref().spans(pat, norm) != spans:
            raise HarnessError(f"reference relation wrong for {pat}")


def replay(case, h):
    if case.get("family") == "long":
        n, ph = case["long"]
        att = long_listing(n, ph)
        norm = [e1.norm_inst(*x) for x in att]
        path = h.write("long_replay.s", fmt_listing(att))
        mop = h.mop(case["rule"])
        problems, _ = e1.analyse(h, mop, rm.Ref(), case["rule"]["pattern"], path, norm, want=W)
        if h.match(mop, path, mode="first") != h.match(mop, path, mode="all")[:1]:
            problems.append(("first-prefix", "", ""))
        return bool(problems), str(problems)[:500]
    if case.get("clause") == "scan-dup-addr":
        att = [(a, m, list(o)) for a, m, o in case["listing"]]
        got = h.match(h.mop(case["rule"]), h.listing_file(fmt_listing(att)), mode="all", only_addr=True)
        return got != case["expected"], f"got {got}"
    if case.get("clause") == "first-prefix":
        att = [(a, m, list(o)) for a, m, o in case["listing"]]
        p = h.listing_file(fmt_listing(att))
        mop = h.mop(case["rule"])
        f, a = h.match(mop, p, mode="first"), h.match(mop, p, mode="all")
        return f != a[:1], f"first={f} all={a}"
    return e1.replay_case(case, h, want=W)
