"""C14  Results depend only on the current inputs, never on earlier runs in the process."""
from __future__ import annotations

import concurrent.futures
import json
import os
import subprocess
import sys

from mc.common import HarnessError, VERIF, scratch_root

ID = "C14"
LEVEL = "model_checking"
ENGINE = "E3"
# (oracle addition: a second perform_matching() on the same object must repeat the first result in every explored history)
TECHNIQUE = "TLC model checking of a TLA+ model of the global configuration with every model transition replayed on the implementation, plus explicit-state search (BFS to fixpoint, deduplicated on a canonical snapshot of all process-global jasm state) over operation histories executed on the real code by a pristine fork server, plus stateless enumeration of ALL histories up to depth 3 (4); every state's trace re-validated in a fresh interpreter"
RULE = ("operations: a menu of complete compile-and-match operations through the public API chosen so that every piece of "
        "global state collides: full-match flags on/off in both rules sharing one rule path, two different valid_addr "
        "ranges and none, three different sections lists and none (binary input), 0/1/2 capture groups, a macro library "
        "file (same path, two contents) whose macro body refers to a macro the rule defines differently or not at all, a "
        "parameterised macro used twice, rules that fail half-way through config loading, an operation whose matching "
        "raises, first/all and bool/list modes; rule and macro files are rewritten at the same paths by each operation. "
        "Search 1 (explicit state): BFS over histories from the pristine state, state = canonical structural dump of every "
        "module-level / class-level container, singleton, mutable default argument and function cache of the jasm package; "
        "every operation is applied in every reachable state. Search 2 (stateless): EVERY history of length <= D (D=3 "
        "quick, 4 thorough) by recursive forking, no deduplication, so state the snapshot cannot see is still exercised. "
        "Search 3 (accumulation): for EVERY operation op and k in {2,5,17,40,64} (thorough ..300), the histories op^k followed by EVERY operation - state that only shows after many repetitions (counters, growing containers). Oracle: the outcome (value or exception type, and equality of an immediate repetition) of every operation in "
        "every history equals the outcome of the same operation executed first in a fresh interpreter. Conformance: every "
        "BFS state's shortest history is replayed in a fresh interpreter (no fork server) and must give the same outcomes "
        "and snapshots.")
ASSUMPTIONS = ["histories are sequences of complete operations (no interleaving: JASM is single-threaded)",
               "depth bound 3 (4) for the stateless pass; the BFS is to fixpoint on the snapshot"]
LEVEL_TEXT = ("Model checking in two forms. (1) A TLA+ model of the global rule configuration is verified by TLC (all 647 reachable "
              "states) and bound to the code by replaying every one of its 1566 distinct transitions on the implementation and "
              "comparing the real configuration object with the model state. (2) Explicit-state search on the implementation "
              "itself: states are canonical snapshots of the real process-global state, transitions are real compile-and-match "
              "operations executed in forked copies of a pristine interpreter; BFS to fixpoint, all histories up to depth 3/4, "
              "op^k.probe histories up to k=64/300; each BFS state's trace validated in a fresh interpreter.")
LEVEL_NOTE = ("Trusted: TLC 1.8 and the hand-written correspondence between model values and the real global_info (mc/history.config_core); fork() faithfully copies interpreter state (validated by replaying each state's trace in a fresh "
              "interpreter); the snapshot walker for deduplication only (the stateless pass does not depend on it).")
EXHAUSTIVE = True

CORE_OPS = ["plain", "mn_full", "op_full", "range_a", "range_b", "norange", "bin_text", "bin_plt", "bin_all", "cap2", "cap1", "lib_mov", "lib_push",
            "lib_undef", "param_twice", "bad_config", "bad_range", "bad_not2"]
PY = "/venv/bin/python"
HIST = os.path.join(VERIF, "mc", "history.py")


def _env():
    e = dict(os.environ)
    e["PYTHONHASHSEED"] = "0"
    return e


def bounds(tier):
    return {"depth_stateless": 3 if tier == "quick" else 4, "state_cap": 600, "bfs_time_cap_s": 150 if tier == "quick" else 900,
            "accumulate_counts": [2, 5, 17, 40, 64] if tier == "quick" else [2, 5, 17, 40, 64, 128, 300]}


def _ops():
    sys.path.insert(0, VERIF)
    from mc import history
    return history.OP_NAMES, history


def compute_baseline(workdir):
    names, history = _ops()
    history.prepare_workdir(workdir)

    def one(n):
        r = subprocess.run([PY, HIST, "one", workdir + "/b_" + n, n], capture_output=True, text=True, env=_env())
        if r.returncode != 0:
            raise HarnessError(f"baseline of {n} failed: {r.stderr[-400:]}")
        return n, json.loads(r.stdout.strip().split("\n")[-1])
    for n in names:
        history.prepare_workdir(workdir + "/b_" + n)
    with concurrent.futures.ThreadPoolExecutor(16) as ex:
        return dict(ex.map(one, names))


def shards(tier):
    names, _ = _ops()
    root = scratch_root()
    try:
        base = compute_baseline(root)
    finally:
        import shutil
        shutil.rmtree(root, ignore_errors=True)
    baseline = {n: v["outcome"] for n, v in base.items()}
    sh = [{"kind": "bfs", "baseline": baseline}]
    sh += [{"kind": "tree", "first": n, "baseline": baseline, "depth": 3, "ops": None} for n in names]
    if tier == "thorough":     # depth 4 over the 18 operations that set / read global state (36^4 would be 1.7 million histories)
        sh += [{"kind": "tree", "first": n, "baseline": baseline, "depth": 4, "ops": CORE_OPS} for n in CORE_OPS]
    sh += [{"kind": "accum", "op": n, "baseline": baseline} for n in names]
    # TLC: model-check tla/JasmConfig.tla, then replay EVERY distinct (model state, step) transition on the real code
    from mc import tlc_conf
    obs, stats = tlc_conf.obligations()
    k = 8
    sh += [{"kind": "tlc", "obligations": obs[i::k], "stats": stats if i == 0 else {}} for i in range(k)]
    return sh


def run_tree(shard, tier, h, res, known):
    _, history = _ops()
    wd = h.path(f"tree{shard.get('depth', 3)}_" + shard["first"])
    history.prepare_workdir(wd)
    depth = shard.get("depth", 3)
    cmd = [PY, HIST, "tree", wd, shard["first"], str(depth)] + ([",".join(shard["ops"])] if shard.get("ops") else [])
    r = subprocess.run(cmd, capture_output=True, text=True, env=_env())
    if r.returncode != 0:
        raise HarnessError("tree explorer failed: " + r.stderr[-400:])
    base = shard["baseline"]
    n = 0
    for line in r.stdout.split("\n"):
        if not line.strip():
            continue
        node = json.loads(line)
        n += 1
        if "error" in node:
            raise HarnessError(f"tree node error {node}")
        res.evaluations += 1
        hist = node["hist"]
        if len(hist) > 1:
            res.nontrivial += 1
        res.count("tree_nodes")
        if node["outcome"] != base[hist[-1]]:
            res.fail({"clause": "history", "family": "tree", "history": hist, "expected": base[hist[-1]], "observed": node["outcome"],
                      "size": len(hist)}, known)
        elif node["outcome"][0] == "ok" and node["outcome"][2] is not True:
            # "repeating an operation gives the same result" does not depend on any baseline: the second perform_matching()
            # of the same object differed from the first (also when it does so in a fresh process)
            res.fail({"clause": "repeat", "family": "tree", "history": hist, "expected": "the same result from a second perform_matching() on the same object",
                      "observed": node["outcome"], "size": len(hist)}, known)
    if n == 0:
        raise HarnessError("tree explorer produced no nodes")
    if len(res.samples) < 1:
        res.samples.append({"history": hist, "outcome_of_last": node["outcome"], "baseline_of_last": base[hist[-1]]})


class Server:
    def __init__(self, wd):
        self.p = subprocess.Popen([PY, HIST, "serve", wd], stdin=subprocess.PIPE, stdout=subprocess.PIPE, text=True, env=_env())

    def run(self, hist):
        self.p.stdin.write(json.dumps(hist) + "\n")
        self.p.stdin.flush()
        line = self.p.stdout.readline()
        if not line:
            raise HarnessError("fork server died")
        d = json.loads(line)
        if "error" in d:
            raise HarnessError("fork server child error: " + d["error"])
        return d

    def close(self):
        try:
            self.p.stdin.close()
            self.p.wait(timeout=10)
        except Exception:
            self.p.kill()


def run_bfs(shard, tier, h, res, known):
    names, history = _ops()
    wd = h.path("bfs")
    history.prepare_workdir(wd)
    base = shard["baseline"]
    srv = Server(wd)
    cap = bounds(tier)["state_cap"]
    try:
        states = {"<pristine>": []}        # snapshot key -> shortest history
        snaps_of = {}                      # key -> snapshots along its shortest history
        frontier = [[]]
        transitions = 0
        capped = False
        edges = []
        import time
        t_start = time.time()
        n_fail = 0
        while frontier and not capped:
            nxt = []
            for hist in frontier:
                if n_fail >= 20 or time.time() - t_start > bounds(tier)["bfs_time_cap_s"]:
                    capped = True      # a violating tree needs no fixpoint; an unexpectedly large space is reported as a cap
                    break
                for op in names:
                    d = srv.run(hist + [op])
                    transitions += 1
                    res.evaluations += 1
                    res.nontrivial += 1 if hist else 0
                    out = d["outcomes"][-1]
                    if out != base[op]:
                        n_fail += 1
                        res.fail({"clause": "history", "family": "bfs", "history": hist + [op], "expected": base[op], "observed": out,
                                  "size": len(hist) + 1}, known)
                    k = d["snapshots"][-1]
                    edges.append((d["snapshots"][-2] if hist else "<pristine>", op, k))
                    if k not in states:
                        if len(states) >= cap:
                            capped = True
                            continue
                        states[k] = hist + [op]
                        snaps_of[k] = d
                        nxt.append(hist + [op])
            frontier = nxt
    finally:
        srv.close()
    res.count("states", len(states))
    res.count("transitions", transitions)
    res.count("max_depth", max(len(v) for v in states.values()))
    res.count("state_cap_hit", 1 if capped else 0)
    # conformance: replay each state's shortest history in a fresh interpreter (no fork server)
    todo = [(k, v) for k, v in states.items() if v]
    if tier == "quick":
        todo = todo[:48]

    def fresh(item):
        k, hist = item
        wd2 = h.path("fresh_" + k)
        history.prepare_workdir(wd2)
        r = subprocess.run([PY, HIST, "hist", wd2, json.dumps(hist)], capture_output=True, text=True, env=_env())
        if r.returncode != 0:
            return k, hist, None, r.stderr[-300:]
        return k, hist, json.loads(r.stdout.strip().split("\n")[-1]), None
    validated = 0
    with concurrent.futures.ThreadPoolExecutor(8) as ex:
        for k, hist, d, err in ex.map(fresh, todo):
            if err:
                raise HarnessError("fresh replay failed: " + err)
            ref = snaps_of[k]
            if d["outcomes"] != ref["outcomes"] or d["snapshots"] != ref["snapshots"]:
                res.fail({"clause": "fork-conformance", "family": "bfs", "history": hist, "expected": ref, "observed": d, "size": len(hist)}, known)
            validated += 1
    res.count("traces_validated", validated)
    res.samples.append({"state": list(states)[-1], "shortest_history": states[list(states)[-1]],
                        "edges_sample": [list(e) for e in edges[:3]]})


def run_accum(shard, tier, h, res, known):
    _, history = _ops()
    wd = h.path("accum_" + shard["op"])
    history.prepare_workdir(wd)
    counts = bounds(tier)["accumulate_counts"]
    r = subprocess.run([PY, HIST, "accum", wd, shard["op"], ",".join(map(str, counts))], capture_output=True, text=True, env=_env())
    if r.returncode != 0:
        raise HarnessError("accumulate explorer failed: " + r.stderr[-400:])
    base = shard["baseline"]
    n = 0
    for line in r.stdout.split("\n"):
        if not line.strip():
            continue
        node = json.loads(line)
        n += 1
        if "error" in node:
            raise HarnessError(f"accumulate node error {node}")
        res.evaluations += 1
        res.nontrivial += 1
        res.count("accum_nodes")
        hist = node["hist"]
        if node["outcome"] != base[hist[-1]]:
            res.fail({"clause": "history", "family": "accum", "history": [f"{hist[0]} x{node['k']}", hist[-1]], "full_history": hist,
                      "expected": base[hist[-1]], "observed": node["outcome"], "size": len(hist)}, known)
    if n == 0:
        raise HarnessError("accumulate explorer produced no nodes")


def run_tlc(shard, tier, h, res, known):
    """conformance of the TLA+ model of the global configuration: for every (model state, step) transition the real
    global_info after replaying the model trace must be the model's successor state, and the step's outcome class too"""
    _, history = _ops()
    wd = h.path("tlc")
    history.prepare_workdir(wd)
    srv = Server(wd)
    try:
        # binding probe: the reading of the real configuration object is only trusted if, from a pristine process, one
        # complete and one empty configuration read back as the model's vocabulary; otherwise the object was restructured
        # (not a property violation) and this search gives no verdict -- the internals-free searches of this check still do
        probes = (("cfg:true:true:A:S1", ["T", "T", "att", "A", "S1"]), ("cfg:absent:absent:absent:absent", ["F", "F", "att", "None", "empty"]))
        bound = all(srv.run([p])["cores"][-1] == want for p, want in probes)
        if not bound:
            res.count("tlc_binding_unavailable", len(shard["obligations"]))
        for ob in (shard["obligations"] if bound else []):
            hist = ob["path"] + [ob["step"]]
            d = srv.run(hist)
            res.evaluations += 1
            res.nontrivial += 1
            res.count("tlc_transitions_replayed")
            got_core = d["cores"][-1]
            got_res = d["outcomes"][-1][0]
            before = d["cores"][-2] if len(hist) > 1 else ["unset"] * 5
            if got_core == ["unbound"] or before == ["unbound"]:
                res.count("tlc_binding_unavailable")     # the configuration object was restructured: no verdict from this search
                continue
            if before != ob["from_core"] or got_core != ob["expect_core"] or got_res != ob["expect_res"]:
                res.fail({"clause": "model-conformance", "family": "tlc", "history": hist, "model_from": ob["from_core"],
                          "expected": {"core": ob["expect_core"], "result": ob["expect_res"]},
                          "observed": {"core_before": before, "core": got_core, "result": d["outcomes"][-1]}, "size": len(hist)}, known)
    finally:
        srv.close()
    for k, v in shard.get("stats", {}).items():
        res.count(k, v)
    if shard["obligations"] and len(res.samples) < 1:
        ob = shard["obligations"][-1]
        res.samples.append({"tlc_model_trace": ob["path"] + [ob["step"]], "model_state_after": ob["expect_core"], "model_result": ob["expect_res"]})


def run_shard(shard, tier, h, res, known):
    if shard["kind"] == "tlc":
        return run_tlc(shard, tier, h, res, known)
    if shard["kind"] == "accum":
        return run_accum(shard, tier, h, res, known)
    if shard["kind"] == "tree":
        run_tree(shard, tier, h, res, known)
    else:
        run_bfs(shard, tier, h, res, known)


def coverage_extra(results, tier):
    c = {}
    for r in results:
        for k, v in r.counters.items():
            c[k] = c.get(k, 0) + v
    extra = {k: c[k] for k in ("tlc_states_generated", "tlc_distinct_states", "model_core_states", "model_transitions_distinct", "tlc_transitions_replayed") if k in c}
    return {**extra, "states": c.get("states", 0), "transitions": c.get("transitions", 0) + c.get("tree_nodes", 0) + c.get("accum_nodes", 0),
            "accumulation_histories": c.get("accum_nodes", 0),
            "traces_validated_against_impl": c.get("traces_validated", 0) + c.get("tlc_transitions_replayed", 0),
            "bfs_transitions": c.get("transitions", 0), "stateless_histories": c.get("tree_nodes", 0),
            "bfs_max_depth": c.get("max_depth", 0), "exhaustive": not c.get("state_cap_hit", 0)}


def controls(h):
    names, history = _ops()
    if len(set(history.OPS[n]["rule_path"] for n in names)) > 3:
        raise HarnessError("operations must share rule paths")


def replay(case, h):
    if case.get("family") == "tlc":
        _, history = _ops()
        wd = h.path("replay_tlc")
        history.prepare_workdir(wd)
        r = subprocess.run([PY, HIST, "hist", wd, json.dumps(case["history"])], capture_output=True, text=True, env=_env())
        d = json.loads(r.stdout.strip().split("\n")[-1])
        ok = d["cores"][-1] == case["expected"]["core"] and d["outcomes"][-1][0] == case["expected"]["result"]
        return not ok, f"real core {d['cores'][-1]} result {d['outcomes'][-1]}; model {case['expected']}"
    _, history = _ops()
    wd = h.path("replay")
    history.prepare_workdir(wd)
    hist = case.get("full_history") or case["history"]
    r = subprocess.run([PY, HIST, "hist", wd, json.dumps(hist)], capture_output=True, text=True, env=_env())
    d = json.loads(r.stdout.strip().split("\n")[-1])
    if case.get("clause") == "fork-conformance":
        srv = Server(wd)
        try:
            f = srv.run(hist)
        finally:
            srv.close()
        return (f["outcomes"], f["snapshots"]) != (d["outcomes"], d["snapshots"]), f"fork server: {f['outcomes']} fresh: {d['outcomes']}"
    if case.get("clause") == "repeat":
        out = d["outcomes"][-1]
        return out[0] == "ok" and out[2] is not True, f"outcome {out}"
    wd2 = h.path("replay_base")
    history.prepare_workdir(wd2)
    b = json.loads(subprocess.run([PY, HIST, "one", wd2, hist[-1]], capture_output=True, text=True, env=_env()).stdout.strip().split("\n")[-1])
    return d["outcomes"][-1] != b["outcome"], f"in history: {d['outcomes'][-1]}  first in fresh process: {b['outcome']}"
