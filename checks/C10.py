"""C10  The matcher's text stream is an unambiguous encoding of the instruction list."""
from __future__ import annotations

import itertools

from mc import e1, objspace as ob, refmodel as rm
from mc.common import HarnessError

ID = "C10"
LEVEL = "exploration"
ENGINE = "E2"
TECHNIQUE = "exhaustive enumeration of code-byte windows (real objdump) and grammar lines through the real parser and consumer; decode(stream) must equal the parsed instruction list; pairwise injectivity on a reduced alphabet"
RULE = ("every instruction list the real parser produces from (b) the real objdump output of EVERY one-byte prefix x 16 tails "
        "and EVERY two-byte prefix x T tails (quick 3, thorough 16, plus third-byte sweeps) for both ELF classes, and (a) "
        "EVERY operand-grammar line of C09; plus sections ending in every 1-byte / prefix-led 2-byte sequence, ~70 exotic instructions (AVX-512 {%k1}{z}/{1to16}, x87 %st(i), string ops, segment overrides, far branches) through real as+objdump in the default layout and with --insn-width=15 (every instruction on one line), and long listings (2^16+-1 instructions). Oracle: decode(stream) (split on '|', "
        "first '::', ',') == list of (addr, mnemonic, operands) returned by the public parse function, and "
        "encode(decode(stream)) == stream; injectivity checked directly: all ordered pairs of distinct instruction lists of "
        "length <= 2 over a 7-instruction alphabet (incl. operand-less, empty-looking and separator-adjacent fields) give "
        "distinct streams. Non-trivial = instruction lines. Corpus family: EVERY instruction line (about 347 000) of the real objdump output of the 10 binaries under tests/binary and of the 26 listings under tests/assembly (thorough: also system binaries where present), judged line by line with the same clauses.")
ASSUMPTIONS = ["GNU objdump 2.40 AT&T output"]
LEVEL_TEXT = ("All instruction lists from the stated byte windows and grammar lines go through the real parser and consumer; the "
              "stream is decoded independently and compared. Exhaustive over the stated windows; bounded claim.")
LEVEL_NOTE = "Trusted: mc/refmodel.decode/encode (12 lines each)."

CLAUSES = ("encoding", "crash")

INJ_ALPHA = [("mov", ["%rax", "%rbx"]), ("mov", ["%rax"]), ("mov", []), ("ret", []), ("mov", ["%rax", "%rbx", "%rcx"]),
             ("push", ["$0x1"]), ("nop", [])]


def bounds(tier):
    return {"tails": len(ob.tails_for(tier)), "inj_len": 2, "long_N": [65535, 65537]}


def shards(tier):
    return ob.window_shards(tier) + ob.eos_shards(tier) + ob.corpus_shards(tier) + [{"kind": "exotic"}, {"kind": "inj"}, {"kind": "long", "n": 65535}, {"kind": "long", "n": 65537}, {"kind": "grammar"}]


def run_inj(h, res, known):
    from mc.common import fmt_listing
    mop = h.mop(ob._TRIVIAL_RULE)
    streams = {}
    lists = [s for n in range(0, 3) for s in itertools.product(range(len(INJ_ALPHA)), repeat=n)]
    for idx in lists:
        att = [(f"{0x10 + 4 * p:x}", INJ_ALPHA[i][0], INJ_ALPHA[i][1]) for p, i in enumerate(idx)]
        stream = h.match(mop, h.listing_file(fmt_listing(att)), ret="stream")
        res.evaluations += 1
        res.nontrivial += 1
        if stream in streams and streams[stream] != idx:
            res.fail({"clause": "injective", "family": "inj", "listing": [[a, m, list(o)] for a, m, o in att],
                      "other": list(streams[stream]), "expected": "distinct streams for distinct lists", "observed": stream,
                      "size": len(att)}, known)
        streams[stream] = idx
        try:
            dec = rm.decode(stream)
        except ValueError as e:
            dec = str(e)
        want = [e1.norm_inst(a, m, o) for a, m, o in att]
        if dec != want:
            res.fail({"clause": "encoding", "family": "inj", "listing": [[a, m, list(o)] for a, m, o in att],
                      "expected": str(want), "observed": str(dec), "size": len(att)}, known)


def run_long(n, h, res, known):
    from mc.common import fmt_listing
    unit = [("mov", ["%rsp", "%rbp"]), ("mov", ["0x40(%rax,%rbx,4)", "%rax"]), ("ret", [])]
    att = [(f"{0x400000 + 3 * i:x}", *unit[i % 3]) for i in range(n)]
    text = fmt_listing(att)
    problems, cnt = ob.analyse_text(h, h.mop(ob._TRIVIAL_RULE), text, ("encoding", "count", "crash"))
    res.evaluations += n
    res.nontrivial += n
    for clause, line, exp, obs in problems:
        res.fail({"clause": clause, "family": "long", "n": n, "line": line, "expected": str(exp)[:200], "observed": str(obs)[:200],
                  "size": n}, known)


def run_shard(shard, tier, h, res, known):
    if shard["kind"] == "inj":
        run_inj(h, res, known)
    elif shard["kind"] == "long":
        run_long(shard["n"], h, res, known)
    elif shard["kind"] == "eos":
        ob.run_eos_shard(shard, tier, h, res, known, CLAUSES, ID)
    elif shard["kind"] == "corpus":
        ob.run_corpus(shard, h, res, known, CLAUSES)
    elif shard["kind"] == "exotic":
        ob.run_exotic(h, res, known, CLAUSES)
    elif shard["kind"] == "grammar":
        import checks.C09 as c09
        c09.run_grammar({"lo": 0, "n": 1}, tier, h, res, known, CLAUSES)
    else:
        ob.run_window_shard(shard, tier, h, res, known, CLAUSES, ID)


def controls(h):
    insts = [("10", "mov", ("%rax", "[%rbx+%rcx*4+0x8]")), ("13", "ret", ()), ("14", "push", ("0x1",))]
    if rm.decode(rm.encode(insts)) != insts:
        raise HarnessError("decode(encode(x)) != x")
    if rm.encode(insts) != "10::mov,%rax,[%rbx+%rcx*4+0x8],|13::ret,,|14::push,0x1,|":
        raise HarnessError("encode differs from the property's format")


def replay(case, h):
    from mc.common import fmt_listing
    if case.get("family") == "inj":
        att = [(a, m, list(o)) for a, m, o in case["listing"]]
        s = h.match(h.mop(ob._TRIVIAL_RULE), h.listing_file(fmt_listing(att)), ret="stream")
        want = [e1.norm_inst(a, m, o) for a, m, o in att]
        try:
            return rm.decode(s) != want or case["clause"] == "injective", s
        except ValueError as e:
            return True, str(e)
    if case.get("family") == "long":
        r = type("R", (), {"evaluations": 0, "nontrivial": 0, "fails": []})()
        r.fail = lambda c, k: r.fails.append(c)
        run_long(case["n"], h, r, set())
        return bool(r.fails), str(r.fails)[:300]
    return ob.replay_line(case, h, CLAUSES)
