"""C08  Every disassembled instruction line yields exactly one stream instruction."""
from __future__ import annotations

import itertools

from mc import objspace as ob, refmodel as rm
from mc.common import HarnessError

ID = "C08"
LEVEL = "exploration"
ENGINE = "E2"
TECHNIQUE = "exhaustive enumeration of code-byte windows disassembled by the real objdump, and of line-kind sequences, through the real parser; oracle = tab-splitting line classifier"
RULE = ("(b) real objdump -d -M att output of enumerated code bytes: for elf64-x86-64 and elf32-i386, EVERY one-byte prefix "
        "x 16 tails and EVERY two-byte prefix x T tails (quick T=3, thorough T=16; thorough adds all third bytes after 14 "
        "escape/prefix pairs), each window followed by a 15-byte NOP sled; (a) EVERY sequence of length <= 4 (quick 3) "
        "over 9 line kinds (instruction with/without operands, label, section header, file-format header, blank, elision, "
        "byte-continuation, (bad)). Oracle: an independent classifier that splits lines on TAB: number, order and addresses "
        "of stream records = those of instruction lines; the record's mnemonic is one of the blank-separated tokens of the "
        "instruction text ('(bad)' <-> 'bad'); no exception. Non-trivial = instruction lines (distinct by construction: "
        "each window is generated once). Corpus family: EVERY instruction line (about 347 000) of the real objdump output of the 10 binaries under tests/binary and of the 26 listings under tests/assembly (thorough: also system binaries where present), judged line by line with the same clauses. Exotic family: ~70 unusual instructions through real as+objdump, in the default layout and with --insn-width=15 (one line per instruction, up to 15 raw bytes in the byte column), each also with CRLF.")
ASSUMPTIONS = ["GNU objdump 2.40 AT&T output; windows cover 1- and 2-byte opcode/prefix space exhaustively, longer encodings through the tails"]
LEVEL_TEXT = ("Every 1- and 2-byte prefix of the x86 code space (both ELF classes) disassembled by the real objdump and every "
              "short sequence of line kinds goes through the real parser; counts, order, addresses and mnemonics compared "
              "with an independent classifier. Exhaustive over the stated windows; a bounded claim about 'every listing'.")
LEVEL_NOTE = "Trusted: mc/refmodel.classify_line (TAB splitter), the real as/objdump as generators of lines."

CLAUSES = ("count", "crash", "mnemonic")

KINDS = [
    "  401000:\t48 89 e5             \tmov    %rsp,%rbp",
    "  401003:\tc3                   \tret",
    "0000000000401000 <main>:",
    "Disassembly of section .text:",
    "a.out:     file format elf64-x86-64",
    "",
    "\t...",
    "  401007:\t33 22 11 ",
    "  40100a:\t06                   \t(bad)",
    "  40100b:\t66                   \tdata16",
    "  40100c:\tf0                   \tlock",
    "  401040:\t66 2e 74 05          \tdata16 je,pn 401046 <main+0x46>",
    "  40100d:\t48                   \trex.W",
    "  40100e:\t48 b8 88 77 66 55 44 \tmovabs $0x1122334455667788,%rax",
    "  401018:\te8 13 00 00 00       \tcall   401030 <" + "N" * 1200 + "+0x10>",
    "  40101d:\t48 8d 05 00 00 00 00 \tlea    0x0(%rip),%rax        # 404010 <" + "_ZN" + "4name" * 1000 + "E+0x8>",
    "0000000000401030 <" + "very_long_label_" * 100 + ">:",
]


def bounds(tier):
    return {"tails": len(ob.tails_for(tier)), "line_seq_len": 3 if tier == "quick" else 4}


def run_long(shard, tier, h, res, known):
    """listings of 2^15+1 .. 2^17+1 instruction lines (count / order / address on every record)"""
    from mc.common import fmt_line
    n = shard["n_lines"]
    unit = [("mov", ["%rsp", "%rbp"]), ("call", ["401030"]), ("ret", []), ("lea", ["0x7f98(,%r15,4)", "%r10"])]
    lines = ["", "x:     file format elf64-x86-64", "", "", "Disassembly of section .text:", "", "0000000000400000 <f>:"]
    lines += [fmt_line(f"{0x400000 + 5 * i:x}", *unit[i % 4]) for i in range(n)]
    text = "\n".join(lines) + "\n"
    problems, cnt = ob.analyse_text(h, h.mop(ob._TRIVIAL_RULE), text, CLAUSES)      # operands are C09's subject
    res.evaluations += n
    res.nontrivial += n
    for clause, line, exp, obs in problems[:5]:
        res.fail({"clause": clause, "family": "long", "n_lines": n, "line": line, "expected": str(exp)[:200], "observed": str(obs)[:200], "size": n}, known)


def shards(tier):
    longs = [{"kind": "long", "n_lines": n} for n in ([32769, 65537, 70001] if tier == "quick" else [32769, 65537, 70001, 131073, 200001])]
    return longs + ob.window_shards(tier) + ob.eos_shards(tier) + [{"kind": "exotic"}] + ob.corpus_shards(tier) + [{"kind": "lines", "lo": i, "n": 8} for i in range(8)]


CONFIGS = [None, {"valid_addr_range": {"min": "401000", "max": "401fff"}}, {"mnemonics-full-match": True, "operands-full-match": True},
           {"sections": [".text"]}]


def run_lines(shard, tier, h, res, known, clauses):
    for conf in CONFIGS:
        run_lines_conf(shard, tier, h, res, known, clauses, conf)
    run_lines_conf(shard, tier, h, res, known, clauses, None, crlf=True)       # the same texts saved with DOS line endings


def run_lines_conf(shard, tier, h, res, known, clauses, conf, crlf=False):
    from mc.common import make_rule_doc
    mop = h.mop(make_rule_doc(["zzzznomatch"], conf))
    L = bounds(tier)["line_seq_len"]
    seqs = [s for n in range(0, L + 1) for s in itertools.product(range(len(KINDS)), repeat=n)]
    for si in range(shard["lo"], len(seqs), shard["n"]):
        text = "\n".join(KINDS[k] for k in seqs[si]) + "\n"
        problems, cnt = ob.analyse_text(h, mop, text, clauses, crlf=crlf)
        res.evaluations += 1
        if cnt["inst_lines"]:
            res.nontrivial += 1
        for clause, line, exp, obs in problems:
            res.fail({"clause": clause, "family": "lines", "text": text, "config": conf, "crlf": crlf, "line": line, "expected": str(exp),
                      "observed": str(obs), "size": len(text)}, known)


def run_shard(shard, tier, h, res, known):
    if shard["kind"] == "long":
        run_long(shard, tier, h, res, known)
    elif shard["kind"] == "lines":
        run_lines(shard, tier, h, res, known, CLAUSES)
    elif shard["kind"] == "eos":
        ob.run_eos_shard(shard, tier, h, res, known, CLAUSES, ID)
    elif shard["kind"] == "corpus":
        ob.run_corpus(shard, h, res, known, CLAUSES)
    elif shard["kind"] == "exotic":
        ob.run_exotic(h, res, known, CLAUSES)
    else:
        ob.run_window_shard(shard, tier, h, res, known, CLAUSES, ID)


def controls(h):
    c = [rm.classify_line(k)[0] for k in KINDS]
    if c != ["inst", "inst", "other", "other", "other", "other", "other", "cont", "inst", "inst", "inst", "inst", "inst", "inst", "inst", "inst", "other"]:
        raise HarnessError(f"line classifier wrong on the line kinds: {c}")


def replay(case, h):
    if case.get("family") == "long":
        r = type("R", (), {"evaluations": 0, "nontrivial": 0, "fails": []})()
        r.fail = lambda c, k: r.fails.append(c)
        run_long({"n_lines": case["n_lines"]}, "quick", h, r, set())
        return bool(r.fails), str(r.fails)[:300]
    if case.get("family") == "lines":
        from mc.common import make_rule_doc
        problems, _ = ob.analyse_text(h, h.mop(make_rule_doc(["zzzznomatch"], case.get("config"))), case["text"], CLAUSES, crlf=bool(case.get("crlf")))
        return bool(problems), str(problems)
    return ob.replay_line(case, h, CLAUSES)
