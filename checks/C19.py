"""C19  Every `@macro` reference is expanded or reported, never silently kept."""
from __future__ import annotations

import copy
import itertools

import yaml

from mc import e1
from mc.common import HarnessError, make_rule_doc

ID = "C19"
LEVEL = "exploration"
ENGINE = "E5"
TECHNIQUE = "bounded exhaustive enumeration of reference positions x definition status x definition order x file split, compiled by the real expander/compiler; oracle: error naming the reference, or no '@' in the produced regex"
RULE = ("reference X in EVERY position {list item, operand, $deref field value, dict key with operand body, dict key with "
        "times body, '@x:' key with empty body, substring of a mnemonic / of an operand, inside $or / $not, inside the body "
        "of a string macro, inside the body of a list macro (as item, as operand, as key), inside a macro argument} x "
        "status of X {undefined; defined as string macro; defined as list macro} x EVERY order of the definition list of "
        "the 1..3 macros in play (X before / after the macro whose body mentions it, an unrelated used / unused macro first "
        "/ last) x EVERY split of the definitions between the rule file and an extra macro file; plus macro definitions "
        "whose own name lacks '@'. At least one definition is always supplied (property scope). Oracle: compilation raises "
        "and the message names the surviving reference, or the produced regex contains no '@' (also when the same Yaml2Regex object is asked a second time). Non-trivial = cases where "
        "the reference is undefined or defined before its user (must be reported).")
ASSUMPTIONS = ["rule names contain no '@' except macro references, so an '@' in the regex is a surviving reference"]
LEVEL_TEXT = ("All positions x statuses x orders x splits of the stated grammar compiled by the real code. Exhaustive within bounds.")
LEVEL_NOTE = "Trusted: the 'no @ in the regex or an error naming the reference' oracle; no model of the expander."

POSITIONS = {
    "item": lambda X: (["mov", X], []),
    "operand": lambda X: ([{"mov": [X, "rbx"]}], []),
    "operand_last": lambda X: ([{"mov": ["rax", X]}], []),
    "deref_value": lambda X: ([{"mov": [{"$deref": {"main_reg": X}}]}], []),
    "deref_value2": lambda X: ([{"mov": [{"$deref": {"main_reg": "rax", "constant_offset": X}}]}], []),
    "key_operands": lambda X: ([{X: ["rax"]}], []),
    "key_times": lambda X: ([{X: {"times": 2}}], []),
    "key_none": lambda X: ([{X: None}], []),
    "sub_mnemonic": lambda X: (["mo" + X], []),
    "sub_operand": lambda X: ([{"mov": ["%" + X]}], []),
    "in_or": lambda X: ([{"$or": [X, "ret"]}], []),
    "in_not": lambda X: ([{"$not": [X]}, "ret"], []),
    "in_operand_or": lambda X: ([{"mov": [{"$or": [X, "rbx"]}]}], []),
    "body_string": lambda X: (["@k"], [{"name": "@k", "pattern": "m" + X}]),
    "body_string_whole": lambda X: ([{"mov": ["@k"]}], [{"name": "@k", "pattern": X}]),
    "body_list_item": lambda X: (["@k"], [{"name": "@k", "pattern": [{"$or": [X, "push"]}]}]),
    "body_list_operand": lambda X: (["@k"], [{"name": "@k", "pattern": [{"mov": [X, "rbx"]}]}]),
    "body_list_key": lambda X: (["@k"], [{"name": "@k", "pattern": [{X: {"times": 2}}]}]),
    "body_list_whole": lambda X: (["@k"], [{"name": "@k", "pattern": [X]}]),
    "macro_arg": lambda X: ([{"@k": None, "a1": X}], [{"name": "@k", "args": ["a1"], "pattern": [{"mov": ["a1", "rbx"]}]}]),
    "macro_arg_item": lambda X: ([{"@k": None, "a1": X}], [{"name": "@k", "args": ["a1"], "pattern": [{"$or": ["a1", "ret"]}]}]),
}
X = "@x"
XDEFS = {"undefined": None, "string": {"name": X, "pattern": "push"}, "list": {"name": X, "pattern": ["push"]}}
SPELLINGS = ["@X1", "@8bit", "@Any-Width", "@x.y", "@_a",
             # names that look like decorated symbols or like words of the DSL, and a bare '@'
             "@plt", "@plt_stub", "@got", "@got_load", "@gotpcrel", "@GLIBC_2.14", "@2_nops", "@64bit_reg", "@-x", "@.x", "@times", "@min", "@pattern",
             "@config", "@main_reg", "@any", "@not", "@deref", "@macros", "@name", "@a@b", "@"]   # undefined references in other spellings (upper case, digit first, ...)
UNRELATED = [None, {"name": "@z", "pattern": "ret"}]   # an unrelated definition (keeps 'at least one definition supplied')


def bounds(tier):
    return {"positions": len(POSITIONS), "statuses": 3, "max_macros": 3}


def all_cases(tier):
    cases = []
    for pname, mk in POSITIONS.items():
        pattern, kdefs = mk(X)
        for status, xdef in XDEFS.items():
            for z in UNRELATED:
                for use_z in ((False, True) if z else (False,)):
                    defs = list(kdefs) + ([xdef] if xdef else []) + ([z] if z else [])
                    if not defs:
                        continue   # no definition supplied: outside the property
                    pat = copy.deepcopy(pattern) + (["@z"] if use_z else [])
                    for order in itertools.permutations(range(len(defs))):
                        ordered = [defs[i] for i in order]
                        for loc in itertools.product((0, 1), repeat=len(ordered)):
                            rf = [d for d, l in zip(ordered, loc) if l == 0]
                            ef = [d for d, l in zip(ordered, loc) if l == 1]
                            cases.append((pname, status, pat, rf, ef))
    for sp in SPELLINGS:
        for pname, mk in POSITIONS.items():
            pattern, kdefs = mk(sp)
            defs = list(kdefs) + [UNRELATED[1]]
            for order in itertools.permutations(range(len(defs))):
                cases.append((pname, "undefined", copy.deepcopy(pattern), [defs[i] for i in order], []))
    # the reference below k nested operators (k = 4..24)
    for k in (4, 8, 12, 16, 24):
        for pname in ("item", "key_times", "sub_mnemonic", "operand", "body_list_item", "body_string"):
            pattern, kdefs = POSITIONS[pname](X)
            inner = pattern
            for lvl in range(k):
                inner = [{("$and", "$or", "$and_any_order")[lvl % 3]: inner + (["ret"] if lvl % 3 else [])}]
            defs = list(kdefs) + [UNRELATED[1]]
            cases.append((f"deep{k}/{pname}", "undefined", inner, defs, []))
            cases.append((f"deep{k}/{pname}", "undefined", inner, [], defs))
    # chains: the rule uses @k, whose body mentions @j, whose body mentions X - every order of the definitions (so @j may be
    # listed before or after the macro that brings it into the tree) x every split between rule file and extra file
    CHAIN_J = {"j_item": lambda X: {"name": "@j", "pattern": [{"$or": ["mov", X]}]}, "j_operand": lambda X: {"name": "@j", "pattern": [{"mov": [X, "rbx"]}]},
               "j_key": lambda X: {"name": "@j", "pattern": [{X: {"times": 2}}]}, "j_string": lambda X: {"name": "@j", "pattern": "m" + X}}
    CHAIN_K = {"j_item": {"name": "@k", "pattern": [{"$or": ["@j", "nop"]}]}, "j_operand": {"name": "@k", "pattern": [{"$and": ["@j", "nop"]}]},
               "j_key": {"name": "@k", "pattern": ["@j", "nop"]}, "j_string": {"name": "@k", "pattern": [{"@j": ["rax"]}]}}
    for jn, mkj in CHAIN_J.items():
        for status, xdef in XDEFS.items():
            defs = [CHAIN_K[jn], mkj(X)] + ([xdef] if xdef else [])
            for order in itertools.permutations(range(len(defs))):
                ordered = [defs[i] for i in order]
                for loc in itertools.product((0, 1), repeat=len(ordered)):
                    cases.append((f"chain/{jn}", status, ["@k", "ret"], [d for d, l in zip(ordered, loc) if l == 0], [d for d, l in zip(ordered, loc) if l == 1]))
    # macro definitions whose own name lacks '@'
    for bad in ("k", "x@k", " @k"):
        cases.append(("badname", "n/a", ["mov", "@z"], [{"name": bad, "pattern": "mov"}, {"name": "@z", "pattern": "ret"}], []))
        cases.append(("badname", "n/a", ["mov", "@z"], [{"name": "@z", "pattern": "ret"}], [{"name": bad, "pattern": "mov"}]))
    return cases


def shards(tier):
    return e1.std_shards(tier, 16, 32)


def run_one(h, pat, rf, ef):
    from jasm.jasm_regex.yaml2regex import Yaml2Regex
    doc = make_rule_doc(copy.deepcopy(pat), None, copy.deepcopy(rf) or None)
    p = h.write("c19.yaml", yaml.safe_dump(doc, sort_keys=False))
    files = [h.write("c19m.yaml", yaml.safe_dump({"macros": copy.deepcopy(ef)}, sort_keys=False))] if ef else None
    try:
        y = Yaml2Regex(p, macros_from_terminal=files)
        t1 = y.produce_regex()
    except Exception as e:  # noqa
        return "raise", f"{type(e).__name__}: {e}", doc
    try:        # the same object asked again: what it produces the second time must not contain a reference either
        t2 = y.produce_regex()
    except Exception:  # noqa
        t2 = t1
    return "ok", (t1 if "@" in t1 else t2), doc


def judge(pname, kind, out):
    if pname == "badname":
        return None if kind == "raise" else ("badname-accepted", "an error rejecting the macro name", out)
    if kind == "ok":
        if "@" in out:
            return ("survives", "error naming the reference, or a regex without '@'", out)
        return None
    return None  # an error is always acceptable here (loudness of its message is checked below)


def run_shared_library(h, res, known):
    """One macro file left UNCHANGED on disk whose macro body refers to @scratch.  Rule A defines @scratch, rule B does not:
    compiled in the order B, A, B, A, B in this process, B must be rejected (or contain no '@') every time."""
    from jasm.jasm_regex.yaml2regex import Yaml2Regex
    lib = h.write("c19_shared_lib.yaml", yaml.safe_dump({"macros": [{"name": "@clear", "pattern": [{"xor": ["@scratch", "@scratch"]}]}]}, sort_keys=False))
    rule_a = make_rule_doc(["@clear", "ret"], None, [{"name": "@scratch", "pattern": "%eax"}])
    rule_b = make_rule_doc(["@clear", "ret"], None, [{"name": "@unrelated", "pattern": "x"}])
    rule_c = make_rule_doc(["@clear", "ret"])
    for step, (nm, doc) in enumerate([("B", rule_b), ("A", rule_a), ("B", rule_b), ("C", rule_c), ("A", rule_a), ("C", rule_c), ("B", rule_b)]):
        p = h.write(f"c19_shl_{nm}.yaml", yaml.safe_dump(doc, sort_keys=False))
        res.evaluations += 1
        res.nontrivial += 1
        try:
            out, kind = Yaml2Regex(p, macros_from_terminal=[lib]).produce_regex(), "ok"
        except Exception as e:  # noqa
            out, kind = f"{type(e).__name__}: {e}", "raise"
        bad = (nm == "A" and (kind != "ok" or "@" in out or "%eax" not in out)) or (nm in ("B", "C") and kind == "ok")
        if bad:
            res.fail({"clause": "shared-library", "family": "sharedlib", "step": step, "which": nm, "rule": doc,
                      "expected": "A compiles with %eax; B and C are rejected naming @scratch", "observed": f"{kind}: {out[:200]}", "size": step}, known)


def run_shard(shard, tier, h, res, known):
    if shard["lo"] == 0:
        run_shared_library(h, res, known)
    cases = all_cases(tier)
    for ci in range(shard["lo"], len(cases), shard["n"]):
        pname, status, pat, rf, ef = cases[ci]
        res.evaluations += 1
        kind, out, doc = run_one(h, pat, rf, ef)
        if status == "undefined" or pname.startswith("body") or pname.startswith("macro_arg") or pname.startswith("chain"):
            res.nontrivial += 1
        res.count(f"{kind}")
        bad = judge(pname, kind, out)
        if bad is None and kind == "raise" and status == "undefined" and pname != "badname" and X in str(pat) and "@x" not in out \
                and "AssertionError" not in out and "ValueError" in out:
            bad = ("error-does-not-name", "error message naming @x", out)
        if bad:
            res.fail({"clause": bad[0], "family": pname, "status": status, "rule": doc, "extra_file_macros": ef,
                      "expected": bad[1], "observed": bad[2], "size": len(str(doc)) + len(str(ef))}, known)
        if len(res.samples) < 1:
            res.samples.append({"position": pname, "status": status, "rule": doc, "extra_file_macros": ef, "outcome": kind})


def controls(h):
    kind, out, _ = run_one(h, ["mov", "@x"], [{"name": "@x", "pattern": "push"}], [])
    if kind != "ok" or "@" in out or "push" not in out:
        raise HarnessError(f"defined macro in list-item position is not expanded: {kind} {out}")


def replay(case, h):
    if case.get("family") == "sharedlib":
        r = type("R", (), {"evaluations": 0, "nontrivial": 0, "fails": []})()
        r.fail = lambda c, k: r.fails.append(c)
        run_shared_library(h, r, set())
        return bool(r.fails), str(r.fails)[:300]
    kind, out, _ = run_one(h, case["rule"]["pattern"], case["rule"].get("macros") or [], case["extra_file_macros"])
    bad = judge(case["family"], kind, out)
    if bad is None and case["clause"] == "error-does-not-name":
        bad = kind == "raise" and "@x" not in out and "AssertionError" not in out and "ValueError" in out
    return bool(bad), f"{kind}: {out}"
