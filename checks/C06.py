"""C06  $deref matches exactly the memory operand objdump prints as k(a,b,c)."""
from __future__ import annotations

import itertools

from mc import e1, refmodel as rm
from mc.common import HarnessError, make_rule_doc

ID = "C06"
LEVEL = "exploration"
ENGINE = "E1"
TECHNIQUE = "bounded exhaustive enumeration of $deref field combinations/spellings x every operand of a near-miss operand menu, end to end through the real parser and compiler, vs component-wise reference"
RULE = ("rules: $deref with every present/absent combination of register_multiplier, constant_multiplier, constant_offset "
        "(main_reg always present) x base in {rax,rbx} x index in {rbx,rcx} x scale in {1,4,8} (spelled 4 / 0x4 / YAML int) "
        "x displacement in {0x0,0x8,0x10,-0x8,0x80} (spelled with 0x, without 0x, YAML int where possible) x registers "
        "spelled with and without %, in operand position 1 (followed by a plain operand item) and 2; listings: one "
        "instruction whose operand in that position is EVERY operand of the menu {k(a,b,c),(a,b,c),k(a),(a),k(,b,c) over "
        "base/index in {rax,rbx,rcx,rsp}, scale 1/2/4/8, disp in {0x0,0x8,0x10,0x18,-0x8,0x80,0x7fffffff,-0x80000000,0x12345678}} plus registers and "
        "immediates (AT&T text through the real operand normaliser). Round trip: every position-1 rule also against ONE real listing - `lea OP,%rdx` for every valid memory operand of the menu, assembled by `as` and printed by `objdump -d -M att` - where the matched addresses must be exactly those the reference selects. $deref meeting capture groups: a capture defined after a $deref of each shape and used again; plain and register-family captures as base / scaled index, used again in the next instruction, on every menu operand followed by a push of each of 4 registers. Oracle: component-wise equality (same present "
        "components, each equal modulo optional % / 0x). Non-trivial = reference finds the rule, or the operand is a "
        "bracket form with the same main register. Family PO: constant_offset / constant_multiplier written as a $or of EVERY ordered "
        "pair of their spellings (17 offsets of either sign, 5 scales), in the full and the k(a) form, x the whole operand menu.")
ASSUMPTIONS = ["a constant written WITH 0x in the rule is not required to match an operand printed without it (scale)"]
LEVEL_TEXT = ("All $deref rules of the stated grammar x all operands of the menu in both operand positions; verdict compared "
              "with the component-wise reference. Exhaustive within bounds; includes a real as+objdump round trip of the whole operand menu.")
LEVEL_NOTE = "Trusted: mc/refmodel.py bracket parser/deref semantics and normalise_operand (the C09 table)."

REGS_L = ["rax", "rbx", "rcx", "rsp"]
SCALES_L = ["1", "2", "4", "8"]
DISP_L = ["0x0", "0x8", "0x10", "0x18", "-0x8", "0x80", "0x7fffffff", "-0x80000000", "0x12345678"]


def operand_menu():
    m = []
    for a in REGS_L:
        m.append(f"(%{a})")
        for k in DISP_L:
            m.append(f"{k}(%{a})")
        for b in REGS_L:
            for c in SCALES_L:
                m.append(f"(%{a},%{b},{c})")
                for k in DISP_L:
                    m.append(f"{k}(%{a},%{b},{c})")
    for b in REGS_L:
        for c in SCALES_L:
            for k in DISP_L:
                m.append(f"{k}(,%{b},{c})")
    m += ["%rax", "%rbx", "$0x8", "$0x10", "%fs:0x28"]
    # operands with an EXTRA component: a segment override in front of an otherwise matching memory reference
    for seg in ("%fs:", "%gs:", "%cs:"):
        m += [f"{seg}0x8(%rax,%rbx,4)", f"{seg}(%rax,%rbx,4)", f"{seg}0x8(%rax)", f"{seg}(%rax)", f"{seg}0x8(,%rbx,4)"]
    m += ["*0x8(%rax,%rbx,4)", "*0x8(%rax)", "*(%rax)"]
    return m


def bounds(tier):
    return {"operand_menu": len(operand_menu()), "positions": 2}


def spell_reg(r, pct):
    return ("%" + r) if pct else r


def rules_for(tier):
    rules = [e1.RuleCase("PL", [{"movq": ["0xffffffff80000000", {"$deref": {"main_reg": "r10", "register_multiplier": "r11", "constant_multiplier": 8,
                                                                             "constant_offset": "-0x12345678"}}]}], "plong")]
    A, B = ["rax", "rbx"], ["rbx", "rcx"]
    C = [("1", 1), ("4", 4), ("8", 8), ("4", "0x4"), ("4", "4")]
    K = [("0x7fffffff", "0x7fffffff"), ("0x7fffffff", "7fffffff"), ("-0x80000000", "-0x80000000"), ("-0x80000000", "-80000000"), ("0x0", "0x0"), ("0x0", 0), ("0x0", "0"), ("0x8", "0x8"), ("0x8", 8), ("0x8", "8"), ("0x10", "0x10"), ("0x10", "10"),
         ("-0x8", "-0x8"), ("-0x8", "-8"), ("0x80", "0x80"), ("0x80", "80")]
    for pct in (False, True):
        for a in A:
            ma = spell_reg(a, pct)
            combos = [{"main_reg": ma}]
            for _kv, k in K:
                combos.append({"main_reg": ma, "constant_offset": k})
            for b in B:
                mb = spell_reg(b, pct)
                combos.append({"main_reg": ma, "register_multiplier": mb})
                for _cv, c in C:
                    combos.append({"main_reg": ma, "register_multiplier": mb, "constant_multiplier": c})
                    for _kv, k in K:
                        combos.append({"main_reg": ma, "register_multiplier": mb, "constant_multiplier": c, "constant_offset": k})
                for _kv, k in K[:4]:
                    combos.append({"main_reg": ma, "register_multiplier": mb, "constant_offset": k})
            for _cv, c in C[:2]:
                combos.append({"main_reg": ma, "constant_multiplier": c})
                combos.append({"main_reg": ma, "constant_multiplier": c, "constant_offset": "0x8"})
            for d in combos:
                rules.append(e1.RuleCase("P1", [{"mov": [{"$deref": d}, "rdx"]}], "p1"))
                if tier == "thorough" or (pct and a == "rax"):
                    rules.append(e1.RuleCase("PL", [{"movq": ["0xffffffffffffffff", {"$deref": d}]}], "plong"))   # long operand field (> 40 characters)
                    rules.append(e1.RuleCase("P2", [{"mov": ["rdx", {"$deref": d}]}], "p2"))
                    rules.append(e1.RuleCase("P0", [{"lea": [{"$deref": d}]}], "p0"))
    return rules


def capture_rules(tier):
    """$deref meets capture groups: a capture defined after a $deref of every shape and used again (group numbering), and
    captures - plain and register-family - as base / scaled index of a $deref, used again in the next instruction"""
    base = {"main_reg": "rax"}
    shapes = [dict(base), dict(base, constant_offset="0x8"), dict(base, register_multiplier="rbx", constant_multiplier=4),
              dict(base, register_multiplier="rbx", constant_multiplier=4, constant_offset="0x8"),
              dict(base, register_multiplier="rbx", constant_multiplier=8, constant_offset="-0x8")]
    rules = []
    for s_ in shapes:
        rules.append(e1.RuleCase("PC/after", [{"mov": [{"$deref": dict(s_)}, "&x"]}, {"push": ["&x"]}], "pc"))
        for cap in ("&b", "&genreg-b.64"):
            rules.append(e1.RuleCase("PC/base", [{"mov": [{"$deref": dict(s_, main_reg=cap)}, "rdx"]}, {"push": [cap]}], "pc"))
        if "register_multiplier" in s_:
            for cap in ("&i", "&genreg-i.64"):
                rules.append(e1.RuleCase("PC/index", [{"mov": [{"$deref": dict(s_, register_multiplier=cap)}, "rdx"]}, {"push": [cap]}], "pc"))
                rules.append(e1.RuleCase("PC/index1", [{"mov": [{"$deref": dict(s_, register_multiplier=cap)}, "rdx"]}], "pc"))
            rules.append(e1.RuleCase("PC/both", [{"mov": [{"$deref": dict(s_, main_reg="&b", register_multiplier="&i")}, "&x"]}, {"push": ["&i"]}], "pc"))
    return rules


def or_field_rules(tier):
    """constant fields written as an alternation of spellings ($or inside the field): every ordered pair of the offset
    spellings (either sign, with / without 0x, int / str) and of the scale spellings; the operand must be accepted
    exactly when one alternative denotes its component"""
    rules = []
    full = {"main_reg": "rax", "register_multiplier": "rbx", "constant_multiplier": 4, "constant_offset": "0x8"}
    K = ["0x7fffffff", "7fffffff", "-0x80000000", "-80000000", "0x0", 0, "0", "0x8", 8, "8", "0x10", "10", "-0x8", "-8", -8, "0x80", "80"]
    C = [1, 4, 8, "0x4", "4"]
    for f, vals in (("constant_offset", K), ("constant_multiplier", C)):
        for alts in itertools.product(vals, repeat=2):
            d = dict(full)
            d[f] = [{"$or": list(alts)}]
            rules.append(e1.RuleCase(f"PO/{f}", [{"mov": [{"$deref": d}, "rdx"]}], "p1"))
            if f == "constant_offset":
                rules.append(e1.RuleCase("PO/short", [{"mov": [{"$deref": {"main_reg": "rax", f: [{"$or": list(alts)}]}}, "rdx"]}], "p1"))
    return rules


def all_rules(tier):
    return rules_for(tier) + capture_rules(tier) + or_field_rules(tier)


def shards(tier):
    return e1.std_shards(tier, 64, 256)


def build_lsets(h, tier):
    menu = operand_menu()
    longf = [[("movq", ["$0xffffffffffffffff", o])] for o in menu if "%fs" not in o][::3] + \
            [[("movabs", ["$0x1122334455667788", "%r10"]), ("movq", ["$0xffffffff80000000", "-0x12345678(%r10,%r11,8)"])]]
    return {"pc": e1.ExplicitListingSet(h, [[("mov", [o, "%rdx"]), ("push", [r])] for o in menu for r in ("%rax", "%rbx", "%rcx", "%rdx")]),
            "p1": e1.ExplicitListingSet(h, [[("mov", [o, "%rdx"])] for o in menu]),
            "plong": e1.ExplicitListingSet(h, longf),
            "p2": e1.ExplicitListingSet(h, [[("mov", ["%rdx", o])] for o in menu]),
            "p0": e1.ExplicitListingSet(h, [[("lea", [o])] for o in menu] + [[("lea", [o, "%rdx"])] for o in menu[::7]])}


def _deref_of(pattern):
    for x in pattern[0][next(iter(pattern[0]))]:
        if isinstance(x, dict):
            return x["$deref"]


def near_miss(rc, norm):
    """operand is a bracket form with the same main register as the rule's $deref"""
    reg = str(_deref_of(rc.pattern)["main_reg"]).lstrip("%")
    return any(o.startswith("[%" + reg) for _a, _m, ops in norm for o in ops)


_RT = {}


def roundtrip_listing(h):
    """every valid memory operand of the menu as `lea OP,%rdx`, assembled by the real `as` and printed by the real objdump"""
    import subprocess
    from mc import objspace as ob, bind
    if h.root in _RT:
        return _RT[h.root]
    ops = [o for o in operand_menu() if "(" in o and "%fs" not in o and "%gs" not in o and "%cs" not in o and not o.startswith("*")
           and ",%rsp," not in o]
    src = ".text\n" + "".join(f" lea {o},%rdx\n" for o in ops)
    sp = h.write("c06rt.s", src)
    obj = h.path("c06rt.o")
    r = subprocess.run(["as", "--64", sp, "-o", obj], capture_output=True, text=True)
    if r.returncode != 0:
        raise HarnessError("as failed on the C06 round-trip source: " + r.stderr[:300])
    text = ob.objdump_text(obj)
    insts = bind.parse_listing_text(text)
    if insts is None or len(insts) != len(ops):
        raise HarnessError("round-trip listing could not be parsed by the reference classifier")
    _RT.clear()
    _RT[h.root] = (h.write("c06rt.txt", text), insts)
    return _RT[h.root]


def run_roundtrip(shard, tier, h, res, known):
    """each $deref rule against the real objdump listing: the matched addresses must be exactly those the reference selects"""
    path, insts = roundtrip_listing(h)
    rules = [rc for rc in all_rules(tier) if rc.family == "P1"]
    ref = rm.Ref()
    for ri in range(shard["lo"], len(rules), shard["n"]):
        d = _deref_of(rules[ri].pattern)
        pat = [{"lea": [{"$deref": d}, "rdx"]}]
        doc = make_rule_doc(pat)
        res.evaluations += 1
        try:
            got = h.match(h.mop(doc), path, only_addr=True)
        except Exception as e:  # noqa
            res.fail({"clause": "raises", "family": "roundtrip", "rule": doc, "expected": "result", "observed": repr(e), "size": 1}, known)
            continue
        want = [insts[i][0] for i in range(len(insts)) if ref.ends(pat, insts, i)]
        if want:
            res.nontrivial += 1
        if got != want:
            res.fail({"clause": "roundtrip", "family": "roundtrip", "rule": doc, "expected": want, "observed": got, "size": len(str(d))}, known)


def run_shard(shard, tier, h, res, known):
    run_roundtrip(shard, tier, h, res, known)
    e1.run_rules(h, res, known, all_rules(tier), e1.get_lsets(h, tier, build_lsets), shard, prop=ID, near_miss=near_miss)


CONTROLS = [
    ({"main_reg": "rax", "register_multiplier": "rbx", "constant_multiplier": 4, "constant_offset": "0x8"}, "0x8(%rax,%rbx,4)", True),
    ({"main_reg": "%rax", "register_multiplier": "%rbx", "constant_multiplier": 4, "constant_offset": "8"}, "0x8(%rax,%rbx,4)", True),
    ({"main_reg": "rax", "register_multiplier": "rbx", "constant_multiplier": 4, "constant_offset": "0x8"}, "0x8(%rbx,%rax,4)", False),
    ({"main_reg": "rax", "register_multiplier": "rbx", "constant_multiplier": 4}, "0x8(%rax,%rbx,4)", False),
    ({"main_reg": "rax", "constant_offset": "0x8"}, "0x8(%rax)", True),
    ({"main_reg": "rax", "constant_offset": "0x8"}, "0x80(%rax)", False),
    ({"main_reg": "rax"}, "(%rax)", True),
    ({"main_reg": "rax"}, "0x8(%rax)", False),
    ({"main_reg": "rax", "constant_offset": "-8"}, "-0x8(%rax)", True),
]


def controls(h):
    for d, operand, expected in CONTROLS:
        norm = [e1.norm_inst("1", "mov", [operand, "%rdx"])]
        if rm.Ref().found([{"mov": [{"$deref": d}, "rdx"]}], norm) != expected:
            raise HarnessError(f"reference matcher disagrees with property text on control {d} {operand}")


def replay(case, h):
    if case.get("family") == "roundtrip":
        path, insts = roundtrip_listing(h)
        pat = case["rule"]["pattern"]
        got = h.match(h.mop(case["rule"]), path, only_addr=True)
        want = [insts[i][0] for i in range(len(insts)) if rm.Ref().ends(pat, insts, i)]
        return got != want, f"matched {got}, reference selects {want}"
    return e1.replay_case(case, h)
