"""C18  valid_addr_range tags exactly direct calls/jumps that land in the range."""
from __future__ import annotations

import itertools

from mc import e1, refmodel as rm
from mc.common import HarnessError, fmt_listing, make_rule_doc

ID = "C18"
LEVEL = "exploration"
ENGINE = "E1"
TECHNIQUE = "bounded exhaustive enumeration of ranges x spellings x listings mixing direct/indirect branches and other instructions on the real code; oracle computed from the decoded stream and the option-less run"
RULE = ("ranges: EVERY pair min<=max over an 8-value grid (incl. min=max, adjacent values, 1-, 8- and 16-digit values up to 2^63-1 and kernel-style 0xffffffff81000000) x 4 "
        "spellings (0x/no 0x, leading zeros, upper-case digits) of min and max; listings (every second one with its first instruction wrapped over a byte-continuation line): EVERY sequence of length 1..2 "
        "over an alphabet built per range: direct call/jmp with target in {min-1,min,min+1,max-1,max,max+1,far} (targets "
        "printed as objdump does, and with 0x), indirect call/jmp (*%rax, *%r9, *%r10, *%r15, *0x10(%rip), *(%rax), absolute-slot *0x<min>, *0x<max>), conditional jumps in/out "
        "of range, non-branches whose first operand is an in-range number, operand-less and ordinary instructions; plus the "
        "option-absent control. Oracle from the decoded stream: must-tag (direct call/jmp, min<=T<=max) has operands "
        "exactly [valid_addr]; must-not-tag (out of range, indirect, non-branch) keeps the operands of the option-less "
        "run; conditional jumps and callq are don't-care; number, order, addresses and mnemonics equal the option-less "
        "run; the rule 'call: [valid_addr]' / 'jmp: [valid_addr]' in all-matches mode reports exactly the must-tag "
        "calls/jumps. Non-trivial = listings containing at least one direct call/jmp.")
ASSUMPTIONS = ["in-range conditional jumps and callq/jmpq are don't-care (the property speaks of call and jmp)",
               "range bounds are YAML strings (an unquoted 401000 is a decimal YAML int and is rejected loudly)"]
LEVEL_TEXT = ("All ranges of the grid x spellings x all listings up to the bound over the per-range branch alphabet; tagging "
              "compared instruction by instruction with the specification. Exhaustive within bounds.")
LEVEL_NOTE = "Trusted: the 15-line tagging specification in this module; mc/refmodel.decode."

GRID = [0x9, 0x10, 0x401000, 0x401005, 0x401006, 0xfffffff0, 0xffffffff81000000, 0x7fffffffffffffff]


def bounds(tier):
    return {"grid": [hex(g) for g in GRID], "L_listing_len": 2}


def spellings(v):
    return [f"0x{v:x}", f"{v:x}", f"000{v:x}", f"0x{v:X}".replace("0X", "0x")]


def range_cases(tier):
    out = []
    for lo, hi in itertools.combinations_with_replacement(GRID, 2):
        sp = list(zip(spellings(lo), spellings(hi)))
        sp += [(spellings(lo)[0], spellings(hi)[1]), (spellings(lo)[1], spellings(hi)[0])]
        for a, b in sp:
            out.append((lo, hi, a, b))
    return out


def alphabet(lo, hi):
    ts = sorted({t for t in (lo - 1, lo, lo + 1, hi - 1, hi, hi + 1, 0x7fff0000) if t >= 0})
    A = []
    for t in ts:
        A.append(("call", [f"{t:x}"], t, "f+0x10"))
        A.append(("jmp", [f"{t:x}"], t, "f"))
    A.append(("call", [f"0x{lo:x}"], lo, None))
    A.append(("jmp", [f"0x{hi + 1:x}"], hi + 1, None))
    A += [("call", ["*%rax"], None, None), ("call", ["*0x10(%rip)"], None, None), ("jmp", ["*(%rax)"], None, None),
          ("call", [f"*0x{lo:x}"], None, None), ("jmp", [f"*0x{hi:x}"], None, None), ("call", ["*%r9"], None, None),
          ("jmp", ["*%r10"], None, None), ("call", ["*%r15"], None, None),
          ("je", [f"{lo:x}"], "dc", "f"), ("jne", [f"{hi + 2:x}"], "dc", "f"),
          ("push", [f"$0x{lo:x}"], None, None), ("mov", [f"$0x{hi:x}", "%rax"], None, None), ("ret", [], None, None),
          ("mov", ["%rax", "%rbx"], None, None), ("lcall", [f"$0x{lo:x}", "$0x10"], None, None)]
    return A


def shards(tier):
    return e1.std_shards(tier, 64, 128)


def spec(lo, hi, inst):
    """'tag' | 'keep' | 'dc' for one alphabet entry"""
    mn, ops, target, _ = inst
    if target == "dc":
        return "dc"
    if mn in ("call", "jmp") and isinstance(target, int):
        return "tag" if lo <= target <= hi else "keep"
    return "keep"


def run_shard(shard, tier, h, res, known):
    cases = range_cases(tier)
    for ci in range(shard["lo"], len(cases), shard["n"]):
        lo, hi, slo, shi = cases[ci]
        A = alphabet(lo, hi)
        conf = {"valid_addr_range": {"min": slo, "max": shi}}
        listings = [idx for n in (1, 2) for idx in itertools.product(range(len(A)), repeat=n)]
        # materialise the listings once
        mat = []
        for ln, idx in enumerate(listings):
            att = [(f"{0x500000 + 8 * p:x}", A[i][0], A[i][1]) for p, i in enumerate(idx)]
            lines_annot = {p: A[i][3] for p, i in enumerate(idx)}
            # every second listing prints its first instruction as objdump prints a long one: 7 bytes + a continuation line
            tl = fmt_listing(att, wrapped=(ln % 2 == 1)).split("\n")
            k = 0
            for li, l in enumerate(tl):       # objdump's <sym> annotation on direct targets
                if rm.classify_line(l)[0] == "inst":
                    if lines_annot[k]:
                        tl[li] = l + f" <{lines_annot[k]}>"
                    k += 1
            text = "\n".join(tl)
            mat.append((idx, att, text, h.listing_file(text), [spec(lo, hi, A[i]) for i in idx]))
        # the global config is process-wide and read at match time: one phase per compiled rule
        out = {}
        try:
            for phase, doc in (("plain", make_rule_doc(["zzzznomatch"])), ("tagged", make_rule_doc(["zzzznomatch"], conf)),
                               ("call", make_rule_doc([{"call": ["valid_addr"]}], conf)),
                               # the same range with its keys written in the other order (max before min)
                               ("jmp", make_rule_doc([{"jmp": ["valid_addr"]}], {"valid_addr_range": {"max": shi, "min": slo}}))):
                m = h.mop(doc)
                for idx, att, text, path, specs in mat:
                    if phase in ("plain", "tagged"):
                        out[(phase, idx)] = rm.decode(h.match(m, path, ret="stream"))
                    else:
                        out[(phase, idx)] = h.match(m, path, only_addr=True)
        except Exception as e:
            res.evaluations += 1
            res.fail({"clause": "crash", "family": "range", "config": conf, "expected": "no exception", "observed": repr(e), "size": 1}, known)
            continue
        for idx, att, text, path, specs in mat:
            res.evaluations += 1
            if any(A[i][0] in ("call", "jmp") and isinstance(A[i][2], int) for i in idx):
                res.nontrivial += 1
            probs = []
            plain, tagged = out[("plain", idx)], out[("tagged", idx)]
            want_plain = [(a, m, tuple(rm.normalise_operand(o) for o in ops)) for a, m, ops in att]   # None = outside the C09 table
            same = len(plain) == len(want_plain) and all(
                p[0] == w[0] and p[1] == w[1] and len(p[2]) == len(w[2]) and all(wo is None or wo == po for po, wo in zip(p[2], w[2]))
                for p, w in zip(plain, want_plain))
            if not same:
                probs.append(("control", want_plain, plain))
            if [(a, m) for a, m, _ in tagged] != [(a, m) for a, m, _ in plain]:
                probs.append(("sequence", [(a, m) for a, m, _ in plain], [(a, m) for a, m, _ in tagged]))
            else:
                for sp_, t, p in zip(specs, tagged, plain):
                    if sp_ == "tag" and t[2] != ("valid_addr",):
                        probs.append(("must-tag", (t[0], t[1], ("valid_addr",)), t))
                    elif sp_ == "keep" and t[2] != p[2]:
                        probs.append(("must-not-tag", p, t))
                for mn in ("call", "jmp"):
                    want = [a for (a, m_, _), s_ in zip(plain, specs) if m_ == mn and s_ == "tag"]
                    if out[(mn, idx)] != want:
                        probs.append(("rule", want, out[(mn, idx)]))
            for clause, exp, obs in probs:
                res.fail({"clause": clause, "family": "range", "config": conf, "listing": [[a, m, o] for a, m, o in att],
                          "text": text, "specs": specs, "expected": exp, "observed": obs, "size": len(att) * 10}, known)
        if len(res.samples) < 1:
            res.samples.append({"config": conf, "alphabet": [[a[0], a[1]] for a in A][:8]})


def controls(h):
    if spec(0x10, 0x20, ("call", ["10"], 0x10, None)) != "tag" or spec(0x10, 0x20, ("call", ["21"], 0x21, None)) != "keep" \
            or spec(0x10, 0x20, ("call", ["*%rax"], None, None)) != "keep" or spec(0x10, 0x20, ("push", ["$0x10"], None, None)) != "keep":
        raise HarnessError("tagging specification wrong")


def replay(case, h):
    conf = case["config"]
    if "text" not in case:
        try:
            h.mop(make_rule_doc(["zzzznomatch"], conf))
            return False, "compiles"
        except Exception as e:
            return True, repr(e)
    path = h.listing_file(case["text"])
    specs = case["specs"]
    try:
        plain = rm.decode(h.match(h.mop(make_rule_doc(["zzzznomatch"])), path, ret="stream"))
        tagged = rm.decode(h.match(h.mop(make_rule_doc(["zzzznomatch"], conf)), path, ret="stream"))
        rev = {"valid_addr_range": {"max": conf["valid_addr_range"]["max"], "min": conf["valid_addr_range"]["min"]}}   # as in run_shard
        rules = {mn: h.match(h.mop(make_rule_doc([{mn: ["valid_addr"]}], conf if mn == "call" else rev)), path, only_addr=True) for mn in ("call", "jmp")}
    except Exception as e:
        return True, repr(e)
    bad = []
    if [(a, m) for a, m, _ in tagged] != [(a, m) for a, m, _ in plain]:
        bad.append("sequence")
    else:
        for sp_, t, p in zip(specs, tagged, plain):
            if sp_ == "tag" and t[2] != ("valid_addr",):
                bad.append("must-tag")
            elif sp_ == "keep" and t[2] != p[2]:
                bad.append("must-not-tag")
        for mn in ("call", "jmp"):
            if rules[mn] != [a for (a, m_, _), s_ in zip(plain, specs) if m_ == mn and s_ == "tag"]:
                bad.append("rule")
    return bool(bad), f"failing clauses {bad}; plain={plain} tagged={tagged} rules={rules}"
