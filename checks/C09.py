"""C09  Operands reach patterns in a fixed normal form."""
from __future__ import annotations

import itertools
import subprocess

from mc import objspace as ob, refmodel as rm
from mc.common import HarnessError, fmt_line

ID = "C09"
LEVEL = "exploration"
ENGINE = "E2"
TECHNIQUE = "exhaustive enumeration of operand-form sequences (grammar lines and real as+objdump round trips) through the real parser; oracle = string-surgery normaliser implementing the property's table"
RULE = ("(a) grammar lines: EVERY operand sequence of length 0..3 over a reduced 16-operand menu (immediates, registers of "
        "every width, the five memory forms, negative/zero/positive displacements), and EVERY operand of the full menu (all "
        "68 general-purpose register names; k(a,b,c), (a,b,c), k(,b,c), k(a), (a) over all 16 base and index registers on "
        "the diagonal and a 4x4 product, scales 1/2/4/8, 8 displacements incl. 9-, 12- and 16-digit ones), operand fields longer than 40 characters, a 1500-character comment, listings of 50001 / 70001 instruction lines (> 2 MiB of text) in first and in second position, direct targets "
        "with <sym+off> annotation, lines with # comments; (b) real `as` + `objdump -d -M att` round trips of lea/mov/add "
        "instructions over all 16x15 base/index pairs x 4 scales x 4 displacements for elf64 (thorough: also elf32 forms "
        "and the byte windows of C08). Oracle: operand count, order and text equal the normal form computed by an "
        "independent string-surgery normaliser (the property's table). Non-trivial = instruction lines whose operands are "
        "inside the table. Corpus family: EVERY instruction line (about 347 000) of the real objdump output of the 10 binaries under tests/binary and of the 26 listings under tests/assembly (thorough: also system binaries where present), judged line by line with the same clauses.")
ASSUMPTIONS = ["operand texts outside the property's table (segment overrides, *indirect, %st(i), {%k1}) are don't-care for C09 (C08/C10 still cover them)"]
LEVEL_TEXT = ("Every operand sequence of the stated grammar and every real round-trip instruction of the stated product is parsed "
              "by the real parser and compared operand by operand with the table. Exhaustive within bounds.")
LEVEL_NOTE = "Trusted: mc/refmodel.normalise_operand/split_operands/expected_instruction; as/objdump as line generators."

CLAUSES = ("operands", "count", "crash")

R64 = ["rax", "rbx", "rcx", "rdx", "rsi", "rdi", "rbp", "rsp"] + [f"r{i}" for i in range(8, 16)]
R32 = ["eax", "ebx", "ecx", "edx", "esi", "edi", "ebp", "esp"] + [f"r{i}d" for i in range(8, 16)]
R16 = ["ax", "bx", "cx", "dx", "si", "di", "bp", "sp"] + [f"r{i}w" for i in range(8, 16)]
R8 = ["al", "bl", "cl", "dl", "sil", "dil", "bpl", "spl"] + [f"r{i}b" for i in range(8, 16)] + ["ah", "bh", "ch", "dh"]
SCALES = ["1", "2", "4", "8"]
DISPS = ["0x8", "-0x8", "0x0", "0x7fffffff", "-0x80", "0x100000000", "0xfffffffffffffff8", "-0x123456789ab"]

REDUCED = ["$0x1", "$0x10", "%rax", "%r8d", "%al", "%dh", "0x8(%rax,%rbx,4)", "-0x8(%rbp,%rcx,1)", "(%rax,%rbx,8)",
           "0x0(,%rcx,4)", "0x10(%rsp)", "-0x8(%rbp)", "(%rdi)", "0x0(%rax,%rax,1)", "%r15", "$0x0"]


def full_menu():
    m = ["$0x1", "$0x10", "$0xffffffffffffffff"]
    m += ["%" + r for r in R64 + R32 + R16 + R8]
    pairs = [(a, a) for a in R64] + [(a, b) for a in R64[:4] for b in R64[:4] if a != b]
    pairs += [(a, a) for a in R32] + [("eax", b) for b in R32[8:]]      # 32-bit addressing, incl. %r10d..%r15d as index
    for a, b in pairs:
        for c in SCALES:
            m.append(f"(%{a},%{b},{c})")
            for k in DISPS[:3] + (DISPS[5:] if a == b else []):
                m.append(f"{k}(%{a},%{b},{c})")
    for b in R64:
        for c in SCALES:
            for k in DISPS[:3]:
                m.append(f"{k}(,%{b},{c})")
    for a in R64:
        m.append(f"(%{a})")
        for k in DISPS:
            m.append(f"{k}(%{a})")
    return m


def bounds(tier):
    return {"reduced_menu": len(REDUCED), "full_menu": len(full_menu()), "max_operands": 3}


def grammar_lines():
    """yield (text line) with distinct addresses"""
    n = [0]

    def line(mn, ops, **kw):
        n[0] += 1
        return fmt_line(f"{0x401000 + 4 * n[0]:x}", mn, ops, **kw)
    for k in range(0, 4):
        for ops in itertools.product(REDUCED, repeat=k):
            yield line("mov", list(ops))
    for o in full_menu():
        yield line("mov", [o])
        yield line("mov", [o, "%rdx"])
        yield line("mov", ["%rdx", o])
        yield line("imul", ["$0x10", o, "%rdx"])
    # long operand fields (> 40 characters) and many long operands
    yield line("movq", ["$0xffffffffffffffff", "-0x12345678(%r10,%r11,8)"])
    yield line("vfmaddps", ["0x12345678(%r12,%r13,8)", "%xmm10", "%xmm11", "%xmm12"])
    yield line("movabs", ["$0x1122334455667788", "%r10"], comment="x" * 1500)
    for t in ("401030", "0", "7fffffffffff", "ffffffffffffffff", "10"):
        yield line("call", [t], annot="f+0x10")
        yield line("jmp", [t], annot="main")
        yield line("je", [t], annot="f-0x4")
        yield line("call", [t])
    for o in ("0x2fe2(%rip)", "-0x8(%rbp)", "%rax"):
        yield line("mov", [o, "%rax"], comment="404010 <x+0x8>")
        yield line("lea", [o, "%rax"], comment="404010 <x+0x8>", indent=4, nbytes=7)


def run_grammar(shard, tier, h, res, known, clauses):
    mop = h.mop(ob._TRIVIAL_RULE)
    lines = list(grammar_lines())
    chunk = lines[shard["lo"]::shard["n"]]
    text = "\n".join(["", "x:     file format elf64-x86-64", "", "", "Disassembly of section .text:", "", "0000000000401000 <f>:"] + chunk) + "\n"
    problems, cnt = ob.analyse_text(h, mop, text, clauses)
    res.evaluations += cnt["inst_lines"]
    res.nontrivial += cnt["simple_shape"]
    for k, v in cnt.items():
        res.count(k, v)
    for clause, line, exp, obs in problems:
        res.fail({"clause": clause, "family": "grammar", "line": line, "expected": str(exp), "observed": str(obs),
                  "size": len(line or "")}, known)
    if len(res.samples) < 1 and chunk:
        res.samples.append({"grammar_lines": chunk[len(chunk) // 2: len(chunk) // 2 + 2]})


def roundtrip_source(cls, part, nparts):
    regs = R64 if cls == 64 else ["eax", "ebx", "ecx", "edx", "esi", "edi", "ebp", "esp"]
    dst = "%rdx" if cls == 64 else "%edx"
    out = [".text"]
    combos = [(a, b) for a in regs for b in regs if b not in ("rsp", "esp")]
    if cls == 64:   # address-size-prefixed forms: 32-bit base/index registers in 64-bit code
        combos += [(a, b) for a in R32[::3] for b in R32 if b != "esp"]
    for i, (a, b) in enumerate(combos):
        if i % nparts != part:
            continue
        for c in SCALES:
            for k in ("", "0x8", "-0x8", "0x12345"):
                out.append(f" lea {k}(%{a},%{b},{c}),{dst}")
                out.append(f" add {dst},{k}(%{a},%{b},{c})")
        for k in ("", "0x8", "-0x80", "0x12345"):
            out.append(f" mov {k}(%{a}),{dst}")
        out.append(f" lea 0x10(,%{b},8),{dst}")
        out.append(f" mov $0x10,%{a}")
        out.append(f" mov %{a},%{b}")
    return "\n".join(out) + "\n"


def run_roundtrip(shard, tier, h, res, known, clauses):
    src = h.write("rt.s", roundtrip_source(shard["cls"], shard["part"], shard["nparts"]))
    obj = h.path("rt.o")
    r = subprocess.run(["as", f"--{shard['cls']}", src, "-o", obj], capture_output=True, text=True)
    if r.returncode != 0:
        raise HarnessError("as failed on round-trip source: " + r.stderr[:300])
    text = ob.objdump_text(obj)
    problems, cnt = ob.analyse_text(h, h.mop(ob._TRIVIAL_RULE), text, clauses)
    res.evaluations += cnt["inst_lines"]
    res.nontrivial += cnt["simple_shape"]
    for clause, line, exp, obs in problems:
        res.fail({"clause": clause, "family": "roundtrip", "line": line, "elfclass": shard["cls"], "expected": str(exp),
                  "observed": str(obs), "size": len(line or "")}, known)
    if len(res.samples) < 1:
        res.samples.append({"roundtrip_objdump_lines": [l for l in text.split("\n") if "\t" in l][5:8]})


def run_long(shard, tier, h, res, known):
    """a listing of n instruction lines (> 2 MiB of text) cycling through the operand forms; every operand compared"""
    n = shard["n_lines"]
    forms = [("mov", ["%rsp", "%rbp"]), ("add", ["0x7f98(,%r15,4)", "%r10"]), ("lea", ["0x8(%rax,%rbx,4)", "%rcx"]), ("mov", ["$0x10", "-0x8(%rbp)"]),
             ("call", ["401030"]), ("ret", []), ("mov", ["(%rdi)", "%eax"]), ("imul", ["$0x10", "(%rax,%rbx,8)", "%rdx"])]
    lines = ["", "x:     file format elf64-x86-64", "", "", "Disassembly of section .text:", "", "0000000000400000 <f>:"]
    lines += [fmt_line(f"{0x400000 + 7 * i:x}", *forms[i % len(forms)]) for i in range(n)]
    text = "\n".join(lines) + "\n"
    problems, cnt = ob.analyse_text(h, h.mop(ob._TRIVIAL_RULE), text, CLAUSES)
    res.evaluations += n
    res.nontrivial += cnt["simple_shape"]
    for clause, line, exp, obs in problems[:5]:
        res.fail({"clause": clause, "family": "long", "n_lines": n, "line": line, "expected": str(exp)[:200], "observed": str(obs)[:200], "size": n}, known)


def shards(tier):
    sh = [{"kind": "long", "n_lines": n} for n in ([50001, 70001] if tier == "quick" else [50001, 70001, 150001])]
    sh += [{"kind": "grammar", "lo": i, "n": 16} for i in range(16)]
    sh += [{"kind": "rt", "cls": 64, "part": i, "nparts": 8} for i in range(8)]
    sh += [{"kind": "rt", "cls": 32, "part": i, "nparts": 2} for i in range(2)]
    sh += [{"kind": "exotic"}] + ob.corpus_shards(tier)
    # real objdump output of the C08 byte windows: every line whose operands are inside the table is compared too
    sh += [s for s in ob.window_shards("quick") if tier == "thorough" or s["kind"] == "one" or s.get("b0", 1) % 8 == 0]
    return sh


def run_shard(shard, tier, h, res, known):
    if shard["kind"] == "long":
        run_long(shard, tier, h, res, known)
    elif shard["kind"] == "grammar":
        run_grammar(shard, tier, h, res, known, CLAUSES)
    elif shard["kind"] == "rt":
        run_roundtrip(shard, tier, h, res, known, CLAUSES)
    elif shard["kind"] == "corpus":
        ob.run_corpus(shard, h, res, known, ("operands", "crash"))
    elif shard["kind"] == "exotic":
        ob.run_exotic(h, res, known, ("operands", "crash"))
    else:
        ob.run_window_shard(shard, "quick", h, res, known, ("operands", "crash"), ID)


TABLE = [("$0x1", "0x1"), ("%rax", "%rax"), ("0x8(%rax,%rbx,4)", "[%rax+%rbx*4+0x8]"), ("(%rax,%rbx,4)", "[%rax+%rbx*4]"),
         ("0x8(,%rbx,4)", "[+%rbx*4+0x8]"), ("0x8(%rax)", "[%rax+0x8]"), ("(%rax)", "[%rax]"), ("-0x8(%rbp)", "[%rbp+-0x8]")]


def controls(h):
    for a, b in TABLE:
        if rm.normalise_operand(a) != b:
            raise HarnessError(f"normaliser disagrees with the property's table on {a}")
    if rm.split_operands("0x8(%rax,%rbx,4),%rcx,$0x1") != ["0x8(%rax,%rbx,4)", "%rcx", "$0x1"]:
        raise HarnessError("split_operands wrong")
    e = rm.expected_instruction("401030", "call   401030 <f+0x10>")
    if e != ("401030", "call", ("401030",)):
        raise HarnessError(f"expected_instruction wrong on direct target: {e}")


def replay(case, h):
    if case.get("family") == "long":
        r = type("R", (), {"evaluations": 0, "nontrivial": 0, "fails": []})()
        r.fail = lambda c, k: r.fails.append(c)
        run_long({"n_lines": case["n_lines"]}, "quick", h, r, set())
        return bool(r.fails), str(r.fails)[:300]
    return ob.replay_line(case, h, CLAUSES)
