"""C15  Matching a binary equals matching its `objdump -d -M att` text."""
from __future__ import annotations

import itertools
import os
import stat
import subprocess

from mc import e1, objspace as ob, refmodel as rm
from mc.common import HarnessError, REPO, make_rule_doc

ID = "C15"
LEVEL = "exploration"
ENGINE = "E2"
TECHNIQUE = "bounded exhaustive enumeration of object-file layouts x code bodies x sections lists x rules, binary route vs assembly route on the harness's own objdump text; argv of the spawned objdump recorded by a PATH shim"
RULE = ("object files built with the real assembler: 4 section layouts (one .text; two executable sections; executable + data "
        "+ .plt-named executable section; no executable section) x B code bodies (hand-written functions, a body with runs of zero bytes, and C08 byte "
        "windows) x ELF class {elf64, elf32} x EVERY sections list in {absent, [], each single section name of the layout, "
        "each ordered pair, a name not in the file, present+absent in both orders} x 5 rules x {first, all} modes (every second object at a path with blanks and a non-ASCII letter; the matcher objects of the two routes also swapped), and each sections list combined with the other rule options (valid_addr_range covering part of the code, both full-match flags) for 2 rules, plus the real programs under tests/binary (quick: those below 1 MB) through both routes without and with sections lists, all "
        "executed in one process per shard so that consecutive operations have different sections lists. Oracle: the "
        "harness runs `objdump -d -M att [-j s]... file` itself; if objdump exits non-zero the binary route must raise; "
        "otherwise the instruction stream and the result lists of the binary route equal those of the assembly route on "
        "that text. The argv of JASM's objdump call is recorded by a PATH shim and reported in the evidence, but not judged (equivalent command lines exist). Non-trivial = cases whose "
        "objdump text contains at least one instruction.")
ASSUMPTIONS = ["GNU objdump 2.40 / GNU as on PATH; only AT&T style (style: intel is outside the property)"]
LEVEL_TEXT = ("All layouts x bodies x classes x sections lists x rules of the stated sets; both routes compared on stream and "
              "results, and the spawned command line checked. Exhaustive within the stated sets; a bounded claim about "
              "'every object file'.")
LEVEL_NOTE = "Trusted: the real objdump as the specification of the text; the argv-recording shim (exec's the real objdump)."

BODIES = [
    "push %rbp\n mov %rsp,%rbp\n mov $0x0,%eax\n pop %rbp\n ret\n",
    "call f1\nf1:\n jmp *%rax\n call *0x10(%rip)\n nopw 0x0(%rax,%rax,1)\n ret\n",
    "movabs $0x1122334455667788,%rax\n lock cmpxchg %rax,(%rbx)\n rep stos %al,%es:(%rdi)\n ret\n",
    "xor %eax,%eax\n inc %eax\n dec %ecx\n push %rbx\n lea 0x8(%rax,%rbx,4),%rcx\n ret\n",
    # runs of zero bytes (objdump folds them into '...'), inside the code and as the tail of the section
    "push %rbx\n inc %eax\n .zero 24\n push %rax\n ret\n .zero 8\n",
]
BODIES32 = [
    "push %ebp\n mov %esp,%ebp\n inc %eax\n dec %ecx\n inc %edx\n pop %ebp\n ret\n",
    "push %ebx\n mov 0x8(%esp),%eax\n lea 0x0(%esi),%esi\n inc %eax\n ret\n",
    "push %ebx\n inc %eax\n .zero 24\n push %eax\n ret\n .zero 8\n",
]
RAW = [bytes.fromhex("4048ffc0c3") + ob.NOP_SLED[:3], bytes.fromhex("06670000c3"), bytes.fromhex("2e7002ebfec3")]

RULES = [["ret"], ["push"], [{"$not": ["ret"]}, "ret"], [{"mov": ["@any0", "@any0"]}]]
RULES = [["ret"], ["push"], [{"$not": ["ret"]}, "ret"], ["inc"], ["add"]]


# options that have nothing to do with disassembling; the address range covers only part of every body
OTHER_OPTIONS = [{"valid_addr_range": {"min": "1", "max": "5"}}, {"mnemonics-full-match": True, "operands-full-match": True},
                 {"valid_addr_range": {"min": "0x4", "max": "0x4"}, "mnemonics-full-match": True}]


def bounds(tier):
    return {"layouts": 4, "bodies": len(BODIES) + len(RAW), "classes": 2}


def layout_source(layout, body, body2):
    if layout == 0:
        return f".text\n{body}", [".text"]
    if layout == 1:
        return f".text\n{body}.section .text.hot,\"ax\"\n{body2}", [".text", ".text.hot"]
    if layout == 2:
        return (f".text\n{body}.data\n.long 0x11223344\n.quad 0x9090909090909090\n.section .plt,\"ax\"\n{body2}",
                [".text", ".data", ".plt"])
    if layout == 5:   # a data object inside an executable section (jump table): objdump -d prints it as data, -D as code
        return (f".text\n{body} jmp 1f\n.type tbl,@object\ntbl:\n .long 0x90909090\n .long 0xc3c3c3c3\n.size tbl,8\n1:\n ret\n"
                f".data\n.type var,@object\nvar:\n .quad 0x9090909090909090\n.size var,8\n", [".text", ".data"])
    if layout == 4:   # section names with upper-case letters; two names differing only in case
        return (f".text\n{body}.section INIT,\"ax\"\n{body2}.section .CODE,\"ax\"\n ret\n.section .code,\"ax\"\n nop\n ret\n",
                [".text", "INIT", ".CODE", ".code"])
    return ".data\n.long 0x11223344\n.byte 0xc3\n", [".data"]


def section_lists(names):
    out = [None, []]
    out += [[n] for n in names]
    out += [list(p) for p in itertools.permutations(names[:3], 2)] + ([[names[2], names[3]], [names[3], names[2]]] if len(names) > 3 else [])
    out += [[".nosuch"], [names[0], ".nosuch"], [".nosuch", names[0]]]
    return out


def make_shim(h):
    d = h.path("shim")
    os.makedirs(d, exist_ok=True)
    log = h.path("shim.log")
    real = subprocess.run(["which", "objdump"], capture_output=True, text=True).stdout.strip()
    p = os.path.join(d, "objdump")
    with open(p, "w") as f:
        f.write(f"#!/bin/sh\nprintf '%s\\n' \"$*\" >> {log}\nexec {real} \"$@\"\n")
    os.chmod(p, os.stat(p).st_mode | stat.S_IEXEC)
    return d, log


def big_source(n):
    unit = ["mov %rax,%rbx", "push %rax", "lea 0x369051fe(%rax,%rbx,4),%rcx", "call .+0x20", "xor %eax,%eax", "pop %rbx", "nop", "ret"]
    body = "\n".join(" " + unit[i % len(unit)] for i in range(n))
    return f".text\n{body}\n.section .text.hot,\"ax\"\n{body}\n"


def run_big(shard, h, res, known):
    """large objects: the objdump listing is far bigger than any I/O block (64 KiB .. several MiB); whole streams compared.
    kind 'corpus': the same comparison on a real program of the repository (tests/binary): every register, prefix and
    addressing form it contains goes through both routes"""
    if shard.get("kind") == "corpus":
        n, obj = 0, shard["binary"]
        seclists = (None, [".text"], [".plt", ".text"])
    else:
        n = shard["n"]
        sp = h.write("c15big.s", big_source(n))
        obj = h.path("c15big.o")
        r = subprocess.run(["as", "--64", sp, "-o", obj], capture_output=True, text=True)
        if r.returncode != 0:
            raise HarnessError("as failed: " + r.stderr[:300])
        seclists = (None, [".text"], [".text.hot", ".text"])
    for sections in seclists:
        conf = {} if sections is None else {"sections": sections}
        cmd = ["objdump", "-d", "-M", "att"] + [x for s in (sections or []) for x in ("-j", s)] + [obj]
        ref = subprocess.run(cmd, capture_output=True, text=True)
        if ref.returncode != 0:
            res.count("corpus_section_list_not_applicable")      # e.g. no .plt in this program: the fault side is the small family's subject
            continue
        tpath = h.write("c15big.txt", ref.stdout)
        for rule in (["pop", "nop", "ret"], ["zzzznomatch"]) if not shard.get("kind") == "corpus" else (["pop", "ret"], [{"mov": ["rsp"]}, "call"]):
            res.evaluations += 1
            res.nontrivial += 1
            case = {"family": "big", "n": n, "config": conf, "rule": make_rule_doc(rule, conf), "size": n}
            if shard.get("kind") == "corpus":
                case.update(family="corpus", binary=obj.replace(REPO, "<repo>"))
            try:
                mb = h.mop(make_rule_doc(rule, conf), binary=True)
                gs, g = h.match(mb, obj, ret="stream"), h.match(mb, obj, only_addr=True)
                ma = h.mop(make_rule_doc(rule, conf))
                es, e = h.match(ma, tpath, ret="stream"), h.match(ma, tpath, only_addr=True)
            except Exception as ex:  # noqa
                res.fail({**case, "clause": "raised", "expected": "result", "observed": repr(ex)}, known)
                continue
            if gs != es:
                k = next((i for i, (a, b) in enumerate(zip(gs, es)) if a != b), min(len(gs), len(es)))
                res.fail({**case, "clause": "stream", "expected": es[max(0, k - 80):k + 80], "observed": gs[max(0, k - 80):k + 80]}, known)
            elif g != e:
                res.fail({**case, "clause": "result", "expected": f"{len(e)} matches", "observed": f"{len(g)} matches"}, known)
            # the text route must have seen the whole listing: as many records as instruction lines objdump printed
            n_lines = sum(1 for l in ref.stdout.split("\n") if rm.classify_line(l)[0] == "inst")
            if es.count("|") != n_lines:
                res.fail({**case, "clause": "text-route-incomplete", "expected": f"{n_lines} records", "observed": f"{es.count('|')} records"}, known)


def shards(tier):
    sh = [{"kind": "big", "n": n} for n in ([1500, 9000, 45000] if tier == "quick" else [1500, 9000, 45000, 120000])]
    import glob
    sh += [{"kind": "corpus", "binary": p} for p in sorted(glob.glob(os.path.join(REPO, "tests", "binary", "*")))
           if tier == "thorough" or os.path.getsize(p) < 1000000]        # quick leaves out the largest program (bash)
    for cls in (64, 32):
        bodies = range(len(BODIES) + len(RAW)) if cls == 64 else range(len(BODIES32) + len(RAW))
        for layout in range(6):
            for b in bodies:
                if layout in (3, 4, 5) and b > 0:
                    continue
                sh.append({"cls": cls, "layout": layout, "body": b})
    return sh


def body_text(cls, b):
    src = BODIES if cls == 64 else BODIES32
    if b < len(src):
        return src[b]
    raw = RAW[b - len(src)]
    return " .byte " + ",".join(f"0x{x:02x}" for x in raw) + "\n"


def run_shard(shard, tier, h, res, known):
    if shard.get("kind") in ("big", "corpus"):
        return run_big(shard, h, res, known)
    cls = shard["cls"]
    body = body_text(cls, shard["body"])
    body2 = body_text(cls, (shard["body"] + 1) % (len(BODIES if cls == 64 else BODIES32)))
    src, names = layout_source(shard["layout"], body, body2.replace("f1", "f2"))
    sp = h.write("c15.s", src)
    # every second body lives at a path with blanks and a non-ASCII letter (the path is one argument of the tool's command line)
    obj = h.path("c15 obj \u00e9.o" if shard["body"] % 2 else "c15.o")
    r = subprocess.run(["as", f"--{cls}", sp, "-o", obj], capture_output=True, text=True)
    if r.returncode != 0:
        raise HarnessError("as failed: " + r.stderr[:300])
    shim_dir, log = make_shim(h)
    old_path = os.environ["PATH"]
    os.environ["PATH"] = shim_dir + os.pathsep + old_path
    try:
        prior = []
        for sections in section_lists(names):
            conf = {} if sections is None else {"sections": sections}
            prior.append(sections)
            cmd = ["objdump", "-d", "-M", "att"] + [x for s in (sections or []) for x in ("-j", s)] + [obj]
            ref = subprocess.run([c if i else "/usr/bin/objdump" for i, c in enumerate(cmd)], capture_output=True, text=True)
            # the other options of a rule meet the sections list: they must not change what is disassembled
            combos = [(rule, mode, conf) for rule in RULES for mode in ("first", "all")]
            for extra in OTHER_OPTIONS:
                combos += [(rule, "all", {**conf, **extra}) for rule in RULES[:2]]
            for rule, mode, conf in combos:
                if True:
                    res.evaluations += 1
                    case = {"family": "bin", "elfclass": cls, "source": src, "config": conf, "rule": make_rule_doc(rule, conf),
                            "mode": mode, "size": len(src) + len(str(sections)), "sections_lists_run_before": list(prior[:-1]),
                            "obj_name": os.path.basename(obj)}
                    open(log, "w").close()
                    try:
                        mb = h.mop(make_rule_doc(rule, conf), binary=True)
                        got_stream = h.match(mb, obj, ret="stream")
                        got = h.match(mb, obj, mode=mode)
                        raised = None
                    except Exception as e:  # noqa
                        raised = repr(e)
                    argvs = [l for l in open(log).read().split("\n") if l]
                    want_argv = " ".join(cmd[1:])
                    if ref.returncode != 0:
                        if raised is None:
                            res.fail({**case, "clause": "must-raise", "expected": f"exception (objdump exit {ref.returncode}: {ref.stderr.strip()[:80]})",
                                      "observed": got}, known)
                        continue
                    if raised is not None:
                        res.fail({**case, "clause": "raised", "expected": "result", "observed": raised}, known)
                        continue
                    tpath = h.write("c15.txt", ref.stdout)
                    ma = h.mop(make_rule_doc(rule, conf))
                    exp_stream = h.match(ma, tpath, ret="stream")
                    exp = h.match(ma, tpath, mode=mode)
                    if exp_stream:
                        res.nontrivial += 1
                    if got_stream != exp_stream:
                        res.fail({**case, "clause": "stream", "expected": exp_stream[:300], "observed": got_stream[:300]}, known)
                    elif got != exp:
                        res.fail({**case, "clause": "result", "expected": exp, "observed": got}, known)
                    elif rule is RULES[0] and mode == "first":
                        # the object that just took the binary route is pointed at the text, and the one that took the text
                        # route at the binary: the route follows the configuration of the call, not the object's history
                        try:
                            mb.match_config.input_file_type = h.gd.InputFileType.assembly
                            ma.match_config.input_file_type = h.gd.InputFileType.binary
                            sw = (h.match(mb, tpath, ret="stream"), h.match(ma, obj, ret="stream"))
                        except Exception as e:  # noqa
                            sw = repr(e)
                        if sw != (exp_stream, exp_stream):
                            res.fail({**case, "clause": "route-switch", "expected": exp_stream[:300], "observed": str(sw)[:300]}, known)
                    # the exact command line is not part of the property (equivalent spellings exist): recorded, not judged
                    res.count("objdump_invocations", len(argvs))
                    if any(a != want_argv for a in argvs):
                        res.count("argv_differs_from_canonical")
        if len(res.samples) < 1:
            res.samples.append({"elfclass": cls, "layout_sections": names, "source": src[:200], "sections_lists": [str(s) for s in section_lists(names)][:6]})
    finally:
        os.environ["PATH"] = old_path


def controls(h):
    for t in ("as", "objdump"):
        if subprocess.run(["which", t], capture_output=True).returncode != 0:
            raise HarnessError(f"{t} not on PATH")


def replay(case, h):
    if case.get("family") in ("big", "corpus"):
        r = type("R", (), {"evaluations": 0, "nontrivial": 0, "fails": []})()
        r.fail = lambda c, k: r.fails.append(c)
        r.count = lambda *a, **k: None
        run_big({"n": case["n"]} if case["family"] == "big" else {"kind": "corpus", "binary": case["binary"].replace("<repo>", REPO)}, h, r, set())
        return bool(r.fails), str([f["clause"] for f in r.fails])
    sp = h.write("r.s", case["source"])
    obj = h.path(case.get("obj_name", "r.o"))
    subprocess.run(["as", f"--{case['elfclass']}", sp, "-o", obj], check=True)
    sections = case["config"].get("sections")
    cmd = ["objdump", "-d", "-M", "att"] + [x for s in (sections or []) for x in ("-j", s)] + [obj]
    ref = subprocess.run(cmd, capture_output=True, text=True)
    for s in case.get("sections_lists_run_before", []):     # the operations that preceded this one in the same process
        try:
            m0 = h.mop(make_rule_doc(["ret"], {} if s is None else {"sections": s}), binary=True)
            h.match(m0, obj)
        except Exception:  # noqa
            pass
    try:
        mb = h.mop(case["rule"], binary=True)
        gs, g = h.match(mb, obj, ret="stream"), h.match(mb, obj, mode=case["mode"])
    except Exception as e:
        return ref.returncode == 0, f"binary route raised {e!r}; objdump exit {ref.returncode}"
    if ref.returncode != 0:
        return True, f"objdump exit {ref.returncode} but binary route returned {g}"
    t = h.write("r.txt", ref.stdout)
    ma = h.mop(case["rule"])
    es, e = h.match(ma, t, ret="stream"), h.match(ma, t, mode=case["mode"])
    if case.get("clause") == "route-switch":
        try:
            mb.match_config.input_file_type = h.gd.InputFileType.assembly
            ma.match_config.input_file_type = h.gd.InputFileType.binary
            sw = (h.match(mb, t, ret="stream"), h.match(ma, obj, ret="stream"))
        except Exception as ex:  # noqa
            return True, repr(ex)
        return sw != (es, es), f"streams after swapping the routes equal: {sw == (es, es)}"
    return (gs, g) != (es, e), f"binary={g} text={e} streams_equal={gs == es}"
