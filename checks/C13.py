"""C13  Macro expansion is equivalent to manual inlining."""
from __future__ import annotations

import copy
import itertools

import yaml

from mc import e1
from mc.common import HarnessError, make_rule_doc

ID = "C13"
LEVEL = "exploration"
ENGINE = "E5"
TECHNIQUE = "bounded exhaustive enumeration of macro use forms x combinations x definition orders x file splits; the real expander+compiler output is compared with the compiled manually-inlined rule (text, then behaviour on all listings)"
RULE = ("use forms U (each paired with its manual inlining): string macro as list item, as operand, inside a name (prefix, "
        "suffix), as key with a times body, as $deref field value; list macro (8 instruction-level bodies, three of them carrying a repetition count inside / as sibling / as range) as list item, as "
        "'@m:' key, inside $or/$not/$and_any_order; operand-level list macro; parameterised macro with 1 and 2 formals (in list-element and in dict-value position, nested up to three levels) "
        "called with leaf, sub-tree and falsy (YAML int 0) arguments, with equal and with different arguments; a macro whose body uses "
        "another macro (user listed first); a macro used inside a macro argument; three parameterised macros where a body calls another with a constant argument and formals share a name; a shared-library family: one macro file left unchanged on disk, used by a sequence of rules that define the macro it refers to differently; scale family: a chain of 5 macros each using the next, one macro used 8 times, a parameterised macro called 8 times with different arguments, 12 macros in one rule. Rules: EVERY sequence of length 1..K over "
        "U and 2 plain items (K=2 quick, 3 thorough on a reduced U), so one macro is used 1..K times. For each rule: EVERY "
        "admissible order of the definition list and EVERY split of the definitions between the rule file and 1..2 extra "
        "macro files (both orders of the files). Oracle: Yaml2Regex(...).produce_regex() of the macro rule equals that of "
        "the inlined rule; if the texts differ both are run on every listing of length <= 3 over a 13-instruction alphabet "
        "and must agree; produce_regex() called twice on one object gives the same text, or else the same results on every listing (definitions not altered by use). "
        "Non-trivial = every (rule, order, split) case containing at least one macro use.")
ASSUMPTIONS = ["macro names are not contained in one another; a macro is listed before the macros its body refers to (property scope)",
               "formal parameters only in leaf positions (list element, dict value)"]
LEVEL_TEXT = ("All rules of the stated use-form grammar x all admissible orders x all file splits are compiled by the real expander "
              "and compared with the manually inlined rule. Exhaustive within bounds.")
LEVEL_NOTE = "Trusted: the (use form, inlined form) pairs written in this module; no reference expander is needed."

ALPHA = [("mov", ["0x8(%rax)", "%rcx"]), ("mov", ["0x10(%rbx)", "%rcx"]), ("xor", ["%eax", "%eax"]), ("mov", ["%rsi", "%rdi"]), ("mov", ["$0x0", "%edx"]), ("mov", ["$0x0", "%eax"]), ("mov", ["%rax", "%rbx"]), ("movl", ["%rbx", "%rax"]), ("push", ["%rax"]), ("ret", []), ("xor", ["%rax", "%rax"]),
         ("mov", ["(%rax)", "%rcx"]), ("mov", ["%rax", "$0x0"]), ("mov", ["$0x0", "%rbx"]), ("mov", ["$0x0", "%rax"])]

M_S = {"name": "@s", "pattern": "mov"}
M_R = {"name": "@r", "pattern": "rax"}
M_HX = {"name": "@hx", "pattern": "[\\da-f]+"}           # bodies written as regular expressions, as the shipped macro file does
M_WREG = {"name": "@wreg", "pattern": "r\\w{1,2}"}
M_P1 = {"name": "@p1", "args": ["a1"], "pattern": [{"$or": [{"xor": ["a1", "a1"]}, {"mov": ["a1", "rbx"]}]}]}
M_P2 = {"name": "@p2", "args": ["a1", "a2"], "pattern": [{"mov": ["a1", "a2"]}]}
M_P3 = {"name": "@p3", "args": ["i1", "i2"], "pattern": [{"$and": ["i1", "i2"]}]}
M_O = {"name": "@o", "pattern": [{"$or": ["rax", "rcx"]}]}
M_PT = {"name": "@pt", "args": ["a1"], "pattern": [{"mov": ["a1"], "times": {"min": 1, "max": 2}}]}     # parameterised body with a repetition range
# formal parameters in dict-VALUE position ($deref fields) and nested two levels deep
M_PD = {"name": "@pd", "args": ["b1", "k1"], "pattern": [{"mov": [{"$deref": {"main_reg": "b1", "constant_offset": "k1"}}, "rcx"]}]}
M_PN = {"name": "@pn", "args": ["n1"], "pattern": [{"$or": [{"$and": [{"mov": ["n1", "rbx"]}, {"push": ["n1"]}]}, "ret"]}]}
M_N = {"name": "@n", "pattern": [{"$or": ["@s", "push"]}]}          # body uses @s: @n must be listed before @s
M_NP = {"name": "@np", "args": ["a1"], "pattern": [{"@s": ["a1", "@r"]}]}  # hmm key position: not a supported form
LBODIES = {"@l1": "push", "@l2": {"mov": ["rax"]}, "@l3": {"$or": ["mov", "push"]}, "@l4": {"$not": ["ret"]},
           "@l5": {"$and": ["mov", "push"]},
           # bodies that carry a repetition count (YAML integers inside a definition; `times` inside and as sibling)
           "@l6": {"mov": {"times": 2}}, "@l7": {"$or": ["mov", "push"], "times": {"min": 0, "max": 2}}, "@l8": {"mov": ["rax"], "times": 2}}


def ML(n):
    return {"name": n, "pattern": [copy.deepcopy(LBODIES[n])]}


def p1(v):
    return {"$or": [{"xor": [v, v]}, {"mov": [v, "rbx"]}]}


def uses(tier):
    """list of (macro-form item, inlined item, [macro defs needed], constraints [(before, after)])"""
    U = [
        ("@s", "mov", [M_S], []),
        ({"@s": {"times": 2}}, {"mov": {"times": 2}}, [M_S], []),
        ({"@s": {"times": {"min": 0, "max": 1}}}, {"mov": {"times": {"min": 0, "max": 1}}}, [M_S], []),
        ("@sl", "movl", [M_S], []),
        ("x@s", "xmov", [M_S], []),
        ({"push": ["@r"]}, {"push": ["rax"]}, [M_R], []),
        ({"mov": ["0x@hx", "rcx"]}, {"mov": ["0x[\\da-f]+", "rcx"]}, [M_HX], []),
        ({"mov": ["%@wreg", "%@wreg"]}, {"mov": ["%r\\w{1,2}", "%r\\w{1,2}"]}, [M_WREG], []),
        ({"mov": ["@hx"]}, {"mov": ["[\\da-f]+"]}, [M_HX], []),
        ({"mov": ["%@r", "rbx"]}, {"mov": ["%rax", "rbx"]}, [M_R], []),
        ({"mov": ["@r", "@r"]}, {"mov": ["rax", "rax"]}, [M_R], []),
        ({"mov": [{"$deref": {"main_reg": "@r"}}]}, {"mov": [{"$deref": {"main_reg": "rax"}}]}, [M_R], []),
        ({"mov": [{"$or": ["@r", "rbx"]}]}, {"mov": [{"$or": ["rax", "rbx"]}]}, [M_R], []),
        ({"mov": ["@o", "rbx"]}, {"mov": [{"$or": ["rax", "rcx"]}, "rbx"]}, [M_O], []),
        ({"mov": ["@o", "@o"]}, {"mov": [{"$or": ["rax", "rcx"]}, {"$or": ["rax", "rcx"]}]}, [M_O], []),
        ({"@p1": None, "a1": "rax"}, p1("rax"), [M_P1], []),
        ({"@p1": None, "a1": "rbx"}, p1("rbx"), [M_P1], []),
        ({"@p1": None, "a1": {"$or": ["rax", "rbx"]}}, p1({"$or": ["rax", "rbx"]}), [M_P1], []),
        ({"@p2": None, "a1": "rax", "a2": "rbx"}, {"mov": ["rax", "rbx"]}, [M_P2], []),
        ({"@p2": None, "a1": "rbx", "a2": "rax"}, {"mov": ["rbx", "rax"]}, [M_P2], []),
        ({"@p2": None, "a2": "rbx", "a1": "rax"}, {"mov": ["rax", "rbx"]}, [M_P2], []),
        ({"@p2": None, "a1": "rax", "a2": "rax"}, {"mov": ["rax", "rax"]}, [M_P2], []),
        ({"@p2": None, "a1": "rax", "a2": 0}, {"mov": ["rax", 0]}, [M_P2], []),          # falsy argument values
        ({"@p2": None, "a1": 0, "a2": "rax"}, {"mov": [0, "rax"]}, [M_P2], []),
        ({"@p1": None, "a1": 0}, p1(0), [M_P1], []),
        ({"@pd": None, "b1": "rax", "k1": "0x8"}, {"mov": [{"$deref": {"main_reg": "rax", "constant_offset": "0x8"}}, "rcx"]}, [M_PD], []),
        ({"@pd": None, "b1": "%rbx", "k1": "0x10"}, {"mov": [{"$deref": {"main_reg": "%rbx", "constant_offset": "0x10"}}, "rcx"]}, [M_PD], []),
        ({"@pn": None, "n1": "rax"}, {"$or": [{"$and": [{"mov": ["rax", "rbx"]}, {"push": ["rax"]}]}, "ret"]}, [M_PN], []),
        ({"@pt": None, "a1": "rax"}, {"mov": ["rax"], "times": {"min": 1, "max": 2}}, [M_PT], []),
        ({"@p3": None, "i1": "mov", "i2": "push"}, {"$and": ["mov", "push"]}, [M_P3], []),
        ({"@p3": None, "i1": {"push": ["rax"]}, "i2": "ret"}, {"$and": [{"push": ["rax"]}, "ret"]}, [M_P3], []),
        ("@n", {"$or": ["mov", "push"]}, [M_N, M_S], [("@n", "@s")]),
        ({"@p2": None, "a1": "@r", "a2": "rbx"}, {"mov": ["rax", "rbx"]}, [M_P2, M_R], [("@p2", "@r")]),
    ]
    for n, body in LBODIES.items():
        U.append((n, body, [ML(n)], []))
        U.append(({n: None}, body, [ML(n)], []))
        if tier == "thorough" or n in ("@l2", "@l3", "@l7"):
            U.append(({"$or": [n, "ret"]}, {"$or": [body, "ret"]}, [ML(n)], []))
            U.append(({"$not": [n]}, {"$not": [body]}, [ML(n)], []))
            U.append(({"$and_any_order": [n, "ret"]}, {"$and_any_order": [body, "ret"]}, [ML(n)], []))
            U.append(({"$or": [n, n]}, {"$or": [body, body]}, [ML(n)], []))
    return U


PLAIN = [("ret", "ret", [], []), ({"push": ["rax"]}, {"push": ["rax"]}, [], [])]


def bounds(tier):
    return {"K_uses_per_rule": 2 if tier == "quick" else 3, "use_forms": len(uses(tier))}


def all_rules(tier):
    U = uses(tier)
    pool = U + PLAIN
    rules = []
    for n in (1, 2):
        for seq in itertools.product(range(len(pool)), repeat=n):
            if all(i >= len(U) for i in seq):
                continue
            rules.append([pool[i] for i in seq])
    rules += scale_rules()
    if tier == "thorough":
        small = [u for u in U if u[2] and u[2][0]["name"] in ("@s", "@r", "@p1", "@p2", "@l3", "@n")][:14]
        for seq in itertools.product(range(len(small)), repeat=3):
            rules.append([small[i] for i in seq])
    return rules


def scale_rules():
    """macro chains of depth 5 (each body uses the next macro), one macro used 8 times, 12 macros in one rule"""
    out = []
    chain = [{"name": f"@c{k}", "pattern": [{"$or": [f"@c{k + 1}", "ret"]}]} for k in range(1, 5)] + [{"name": "@c5", "pattern": "push"}]
    inl = "push"
    for _ in range(4):
        inl = {"$or": [inl, "ret"]}
    cons = [(f"@c{k}", f"@c{k + 1}") for k in range(1, 5)]
    out.append([("@c1", inl, chain, cons)])
    out.append([("@c1", inl, chain, cons), ("@c3", {"$or": [{"$or": ["push", "ret"]}, "ret"]}, chain, cons)])
    out.append([("@s", "mov", [M_S], [])] * 8)
    out.append([({"@p2": None, "a1": r, "a2": "rbx"}, {"mov": [r, "rbx"]}, [M_P2], []) for r in ("rax", "rcx", "rdx", "rsi", "rdi", "r8", "r9", "r10")])
    # three parameterised macros; the second's body calls the third with a CONSTANT argument, and the third shares its formal
    # name with the first (argument values must not travel from one expansion to another)
    m_clear = {"name": "@clear", "args": ["reg"], "pattern": [{"xor": ["reg", "reg"]}]}
    m_ltz = {"name": "@load_then_zero", "args": ["dst"], "pattern": [{"$and": [{"mov": ["rsi", "dst"]}, {"@zero": None, "reg": "%edx"}]}]}
    m_zero = {"name": "@zero", "args": ["reg"], "pattern": [{"mov": [0, "reg"]}]}
    trio = [m_clear, m_ltz, m_zero]
    out.append([({"@clear": None, "reg": "%eax"}, {"xor": ["%eax", "%eax"]}, trio, [("@load_then_zero", "@zero")]),
                ({"@load_then_zero": None, "dst": "%rdi"}, {"$and": [{"mov": ["rsi", "%rdi"]}, {"mov": [0, "%edx"]}]}, trio, [("@load_then_zero", "@zero")])])
    many = [{"name": f"@m{k:02d}", "pattern": f"op{k:02d}"} for k in range(12)]
    out.append([(f"@m{k:02d}", f"op{k:02d}", many, []) for k in range(12)])
    return out


def merged_defs(seq):
    defs, cons = {}, []
    for _m, _i, ms, cs in seq:
        for m in ms:
            defs.setdefault(m["name"], m)
        cons += cs
    return defs, cons


def admissible(order, cons):
    return all(order.index(a) < order.index(b) for a, b in cons if a in order and b in order)


def cases_for(seq, tier):
    """yield (rule_file_macros, [file1 macros], [file2 macros]) for every admissible order and split"""
    defs, cons = merged_defs(seq)
    names = list(defs)
    if len(names) > 4:
        # large definition sets: the given order, its reverse where admissible, and three file splits
        for order in (names, names[::-1]):
            if admissible(list(order), cons):
                yield [defs[n] for n in order], [], []
        half = len(names) // 2
        for f1, f2, rf in ((names[:half], [], names[half:]), (names[:half], names[half:], []), ([], names, [])):
            if admissible(f1 + f2 + rf, cons):
                yield [defs[n] for n in rf], [defs[n] for n in f1], [defs[n] for n in f2]
        return
    for order in itertools.permutations(names):
        if not admissible(list(order), cons):
            continue
        yield [defs[n] for n in order], [], []
    # splits: each macro in rule file (0), file1 (1) or file2 (2); merged order = file1 + file2 + rule file
    for loc in itertools.product((0, 1, 2), repeat=len(names)):
        if not any(loc):
            continue
        f1 = [n for n, l in zip(names, loc) if l == 1]
        f2 = [n for n, l in zip(names, loc) if l == 2]
        rf = [n for n, l in zip(names, loc) if l == 0]
        if admissible(f1 + f2 + rf, cons):
            yield [defs[n] for n in rf], [defs[n] for n in f1], [defs[n] for n in f2]


def shards(tier):
    return e1.std_shards(tier, 64, 256)


def build_lsets(h, tier):
    return {"c13": e1.ListingSet(h, ALPHA, 3)}


def compile_text(h, doc, files, name):
    from jasm.jasm_regex.yaml2regex import Yaml2Regex
    p = h.write(name, yaml.safe_dump(doc, sort_keys=False))
    y = Yaml2Regex(p, macros_from_terminal=files or None)
    t1 = y.produce_regex()
    t2 = y.produce_regex()
    return t1, t2


def behaviour_differs(h, ls, ma, mb):
    """the first listing on which two compiled rules give different results, else None"""
    for idx, path, norm, att in ls:
        if h.match(ma, path) != h.match(mb, path):
            return [[a, m, list(o)] for a, m, o in att]
    return None


def with_text(h, doc, files, text):
    """a compiled rule object carrying the given regex text (None if the object no longer has that shape)"""
    m = h.mop(doc, macros=files or None)
    if not isinstance(getattr(m, "regex_rule", None), str):
        return None
    m.regex_rule = text
    return m


def run_shared_library(h, res, known, ls):
    """One extra macro file that stays UNCHANGED on disk; its arg-less macro refers to a macro every rule defines itself.
    Rules with different definitions are compiled one after the other in this process: each must equal its inlined form."""
    lib = h.write("shared_lib.yaml", yaml.safe_dump({"macros": [{"name": "@wrap", "pattern": [{"$or": ["@inner", "ret"]}]},
                                                               {"name": "@twice", "pattern": [{"$and": ["@inner", "@inner"]}]}]}, sort_keys=False))
    for rnd in range(2):
        for inner in ("mov", "push", "xor", {"mov": ["rax"]}, "mov"):
            for use, inl in (("@wrap", {"$or": [inner, "ret"]}), ("@twice", {"$and": [inner, inner]})):
                res.evaluations += 1
                res.nontrivial += 1
                imac = {"name": "@inner", "pattern": inner if isinstance(inner, str) else [inner]}
                doc = make_rule_doc([use, "ret"], None, [imac])
                inl_doc = make_rule_doc([copy.deepcopy(inl), "ret"])
                try:
                    t1, t2 = compile_text(h, doc, [lib], "shl.yaml")
                    ti, _ = compile_text(h, inl_doc, None, "shl_inl.yaml")
                except Exception as e:
                    res.fail({"clause": "compile", "family": "sharedlib", "rule": doc, "inlined": inl_doc, "expected": "compiles", "observed": repr(e), "size": 1}, known)
                    continue
                if t1 != ti or t1 != t2:
                    # textual difference: decide by behaviour on every listing
                    bad = behaviour_differs(h, ls, h.mop(doc, macros=[lib]), h.mop(inl_doc))
                    m2 = with_text(h, doc, [lib], t2) if bad is None and t1 != t2 else None
                    if bad is None and m2 is not None:
                        bad = behaviour_differs(h, ls, h.mop(doc, macros=[lib]), m2)
                    if bad is not None:
                        res.fail({"clause": "shared-library", "family": "sharedlib", "rule": doc, "inlined": inl_doc, "round": rnd,
                                  "listing": bad, "expected": ti, "observed": [t1, t2], "size": 1}, known)
                    else:
                        res.count("text_differs_but_equivalent")


def run_shard(shard, tier, h, res, known):
    rules = all_rules(tier)
    ls = e1.get_lsets(h, tier, build_lsets)["c13"]
    if shard["lo"] == 0:
        run_shared_library(h, res, known, ls)
    for ri in range(shard["lo"], len(rules), shard["n"]):
        seq = rules[ri]
        pattern_m = [copy.deepcopy(x[0]) for x in seq]
        pattern_i = [copy.deepcopy(x[1]) for x in seq]
        inl_doc = make_rule_doc(pattern_i)
        try:
            inl_text, _ = compile_text(h, inl_doc, None, "inl.yaml")
        except Exception as e:
            raise HarnessError(f"inlined rule does not compile: {pattern_i}: {e!r}")
        for rf, f1, f2 in cases_for(seq, tier):
            res.evaluations += 1
            res.nontrivial += 1
            doc = make_rule_doc(copy.deepcopy(pattern_m), None, copy.deepcopy(rf) or None)
            files = []
            if f1:
                files.append(h.write("m1.yaml", yaml.safe_dump({"macros": copy.deepcopy(f1)}, sort_keys=False)))
            if f2:
                files.append(h.write("m2.yaml", yaml.safe_dump({"macros": copy.deepcopy(f2)}, sort_keys=False)))
            case = {"family": "macro", "rule": doc, "macro_files": [f1, f2], "inlined": inl_doc,
                    "size": len(str(doc)) + 5 * len(files)}
            try:
                t1, t2 = compile_text(h, doc, files, "mac.yaml")
            except Exception as e:
                res.fail({**case, "clause": "compile", "expected": "compiles like the inlined rule", "observed": repr(e)}, known)
                continue
            if t1 != t2:
                # the second compilation of the same object gives another text: decide by behaviour
                m2 = with_text(h, doc, files, t2)
                bad = behaviour_differs(h, ls, h.mop(doc, macros=files or None), m2) if m2 is not None else None
                if bad is not None:
                    res.fail({**case, "clause": "recompile", "listing": bad, "expected": t1, "observed": t2}, known)
                else:
                    res.count("recompile_text_differs_but_equivalent" if m2 is not None else "recompile_text_differs_undecided")
            if t1 != inl_text:
                # textual difference: decide by behaviour on every listing
                bad = behaviour_differs(h, ls, h.mop(doc, macros=files or None), h.mop(inl_doc))
                if bad is not None:
                    res.fail({**case, "clause": "behaviour", "listing": bad, "expected": inl_text, "observed": t1}, known)
                else:
                    res.count("text_differs_but_equivalent")
        if len(res.samples) < 1:
            res.samples.append({"rule": make_rule_doc(pattern_m, None, list(merged_defs(seq)[0].values())), "inlined": inl_doc})


def controls(h):
    # the (use, inlined) table must be internally consistent: inlined forms contain no '@'
    for u in uses("thorough"):
        if "@" in str(u[1]):
            raise HarnessError(f"inlined form still contains a macro reference: {u[1]}")
        if "@" not in str(u[0]):
            raise HarnessError(f"use form contains no macro reference: {u[0]}")


def replay(case, h):
    if case.get("family") == "sharedlib":
        r = type("R", (), {"evaluations": 0, "nontrivial": 0, "fails": []})()
        r.fail = lambda c, k: r.fails.append(c)
        r.count = lambda *a, **k: None
        run_shared_library(h, r, set(), e1.get_lsets(h, "quick", build_lsets)["c13"])
        return bool(r.fails), str(r.fails)[:300]
    files = []
    for i, f in enumerate(case["macro_files"]):
        if f:
            files.append(h.write(f"m{i + 1}.yaml", yaml.safe_dump({"macros": f}, sort_keys=False)))
    try:
        t1, t2 = compile_text(h, case["rule"], files, "mac.yaml")
    except Exception as e:
        return True, repr(e)
    ti, _ = compile_text(h, case["inlined"], None, "inl.yaml")
    return (t1 != ti) or (t1 != t2), f"macro={t1!r} inlined={ti!r} second={t2 == t1}"
